(* Tensor/Sweep.v — exactness of the column sweep: folding contract_pairwise over the columns,
   left-to-right or right-to-left, then contract_ladder and as_scalar, yields the exact
   contraction value [value]; partial contractions recombine at every split column. *)
From Coq Require Import List Arith Lia Bool ZArith QArith Ring.
From QV Require Import Tensor.Sums Tensor.Net Tensor.StartStop Tensor.Contract.
Import ListNotations.

Section Sweep.
Variable K : cring.
Add Ring Kring : (cring_th K).
Local Notation tensor := (tensor K).
Local Notation col := (list (option tensor)).
Local Notation "0" := (r0 K).
Local Notation "1" := (r1 K).
Local Infix "+" := (radd K).
Local Infix "*" := (rmul K).
Local Notation opc := (@opc K).
Local Notation netop := (@netop K).
Local Notation pairwise := (@pairwise K).
Local Notation hmatch := (hmatch K).
Local Notation vchain := (vchain K).
Local Notation posc := (posc K).
Local Notation deo := (deo K).
Local Notation dwo := (dwo K).
Local Notation dno := (dno K).
Local Notation dso := (dso K).
Local Notation hd_dn := (hd_dn K).

(* ---- shapes of whole networks ---- *)
Definition colwf (r : nat) (A : col) : Prop := length A = r /\ vchain A /\ posc A.
Fixpoint hchain (cols : list col) : Prop :=
  match cols with
  | A :: rest => match rest with B :: _ => hmatch A B | [] => True end /\ hchain rest
  | [] => True
  end.

Lemma last_indep {X} (l : list X) : forall x d d', last (x :: l) d = last (x :: l) d'.
Proof. induction l as [|y l IH]; intros x d d'; [reflexivity|]. change (last (y :: l) d = last (y :: l) d'). apply IH. Qed.

Lemma hmatch_map A B : hmatch A B <-> map deo A = map dwo B.
Proof.
  revert B; induction A as [|a A IH]; intros [|b B]; cbn; split; intros H; try contradiction; try discriminate; auto.
  - destruct H as [H1 H2]. f_equal; [exact H1|apply IH; exact H2].
  - injection H as H1 H2. split; [exact H1|apply IH; exact H2].
Qed.
Lemma Vok0 B : posc B -> Vok K B O.
Proof. destruct B as [|b B]; cbn; [auto|]. intros [[H _] _]. exact H. Qed.
Lemma vok0 A : vok K A O.
Proof. destruct A as [|[a|] A]; cbn; auto. Qed.

Lemma netop_cons A B rest ws es :
  netop (A :: B :: rest) ws es = sumt (map deo A) (fun mid => opc A O ws mid * netop (B :: rest) mid es).
Proof. reflexivity. Qed.

Lemma pairwise_colwf r A B : colwf r A -> colwf r B -> colwf r (pairwise A B).
Proof.
  intros (LA & VA & PA) (LB & VB & PB). repeat split.
  - rewrite pairwise_length; congruence.
  - apply pairwise_vchain; auto; congruence.
  - apply pairwise_posc; auto.
Qed.

(* pairwise contraction at incoming vertical index 0 *)
Lemma pairwise_sem0 r A B ws es :
  colwf r A -> colwf r B -> hmatch A B -> inr ws (map dwo A) -> inr es (map deo B) ->
  opc (pairwise A B) O ws es = sumt (map deo A) (fun mid => opc A O ws mid * opc B O mid es).
Proof.
  intros (LA & VA & PA) (LB & VB & PB) HM Hws Hes.
  change O with (0 * hd_dn B + 0)%nat at 1.
  apply pairwise_sem; auto using vok0, Vok0.
Qed.

(* ---- right-to-left: fold_right pairwise ---- *)
Lemma sweep_right_shape r l Z :
  Forall (colwf r) (l ++ [Z]) -> hchain (l ++ [Z]) ->
  colwf r (fold_right pairwise Z l)
  /\ map dwo (fold_right pairwise Z l) = map dwo (hd Z l)
  /\ map deo (fold_right pairwise Z l) = map deo Z.
Proof.
  induction l as [|A l IH]; intros HF HH; cbn [fold_right hd].
  - inversion HF; subst. auto.
  - cbn [app] in HF, HH. inversion HF as [|? ? HA HF']; subst. cbn [hchain] in HH. destruct HH as [HAB HH].
    destruct (IH HF' HH) as (Hwf & Hdw & Hde).
    assert (HM : hmatch A (fold_right pairwise Z l)).
    { apply hmatch_map. rewrite Hdw. destruct l as [|B l]; cbn [app hd] in *; apply hmatch_map; exact HAB. }
    split; [apply pairwise_colwf; auto|]. split.
    + apply pairwise_dwo; exact HM.
    + rewrite pairwise_deo by exact HM. exact Hde.
Qed.
Theorem sweep_right_sem r l Z ws es :
  Forall (colwf r) (l ++ [Z]) -> hchain (l ++ [Z]) ->
  inr ws (map dwo (hd Z l)) -> inr es (map deo Z) ->
  opc (fold_right pairwise Z l) O ws es = netop (l ++ [Z]) ws es.
Proof.
  revert ws; induction l as [|A l IH]; intros ws HF HH Hws Hes; cbn [fold_right hd app].
  - reflexivity.
  - cbn [app] in HF, HH. inversion HF as [|? ? HA HF']; subst. cbn [hchain] in HH. destruct HH as [HAB HH].
    destruct (sweep_right_shape r l Z HF' HH) as (Hwf & Hdw & Hde).
    assert (HAB' : map deo A = map dwo (hd Z l)).
    { destruct l as [|B l]; cbn [app hd] in *; apply hmatch_map; exact HAB. }
    assert (HM : hmatch A (fold_right pairwise Z l)) by (apply hmatch_map; congruence).
    rewrite (pairwise_sem0 r) by (auto; rewrite Hde; exact Hes).
    destruct (l ++ [Z]) as [|B rest] eqn:E; [destruct l; discriminate|].
    rewrite netop_cons. apply sumt_ext_in; intros mid Hmid. f_equal.
    apply IH; auto. rewrite <- HAB'. exact Hmid.
Qed.

(* ---- left-to-right: fold_left pairwise ---- *)
Lemma sweep_left_shape r rest : forall acc lastc,
  colwf r acc -> Forall (colwf r) rest -> map deo acc = map deo lastc -> hchain (lastc :: rest) ->
  colwf r (fold_left pairwise rest acc)
  /\ map dwo (fold_left pairwise rest acc) = map dwo acc
  /\ map deo (fold_left pairwise rest acc) = map deo (last rest lastc).
Proof.
  induction rest as [|B rest IH]; intros acc lastc Hacc HF Hde HH; cbn [fold_left last].
  - auto.
  - inversion HF as [|? ? HB HF']; subst. cbn [hchain] in HH. destruct HH as [HAB HH].
    assert (HM : hmatch acc B) by (apply hmatch_map; rewrite Hde; apply hmatch_map; exact HAB).
    destruct (IH (pairwise acc B) B) as (Hwf & Hdw & Hde'); auto using pairwise_colwf.
    { apply pairwise_deo; exact HM. }
    split; [exact Hwf|]. split.
    + rewrite Hdw. apply pairwise_dwo; exact HM.
    + rewrite Hde'. destruct rest as [|B' rest']; [reflexivity|].
      change (last (B :: B' :: rest') lastc) with (last (B' :: rest') lastc). f_equal. apply last_indep.
Qed.
Theorem sweep_left_sem r rest : forall acc lastc ws es,
  colwf r acc -> Forall (colwf r) rest -> map deo acc = map deo lastc -> hchain (lastc :: rest) ->
  inr ws (map dwo acc) -> inr es (map deo (last rest lastc)) ->
  opc (fold_left pairwise rest acc) O ws es
  = match rest with
    | [] => opc acc O ws es
    | _ => sumt (map deo acc) (fun mid => opc acc O ws mid * netop rest mid es)
    end.
Proof.
  induction rest as [|B rest IH]; intros acc lastc ws es Hacc HF Hde HH Hws Hes; cbn [fold_left].
  - reflexivity.
  - inversion HF as [|? ? HB HF']; subst. cbn [hchain] in HH. destruct HH as [HAB HH].
    assert (HM : hmatch acc B) by (apply hmatch_map; rewrite Hde; apply hmatch_map; exact HAB).
    assert (HdeP : map deo (pairwise acc B) = map deo B) by (apply pairwise_deo; exact HM).
    assert (HdwP : map dwo (pairwise acc B) = map dwo acc) by (apply pairwise_dwo; exact HM).
    assert (Hes' : inr es (map deo (last rest B))).
    { destruct rest as [|B' rest']; [exact Hes|].
      change (last (B :: B' :: rest') lastc) with (last (B' :: rest') lastc) in Hes.
      rewrite (last_indep rest' B' B lastc). exact Hes. }
    assert (IH' := IH (pairwise acc B) B ws es (pairwise_colwf r _ _ Hacc HB) HF' HdeP HH).
    rewrite HdwP in IH'. specialize (IH' Hws Hes'). rewrite IH'. clear IH'.
    destruct rest as [|B' rest'].
    + cbn [last] in Hes. apply (pairwise_sem0 r); auto.
    + rewrite HdeP.
      (* (acc . B) . rest = acc . (B . rest) *)
      transitivity (sumt (map deo B) (fun mid2 => sumt (map deo acc) (fun mid1 =>
                      (opc acc O ws mid1 * opc B O mid1 mid2) * netop (B' :: rest') mid2 es))).
      { apply sumt_ext_in; intros mid2 Hmid2. rewrite (pairwise_sem0 r); auto.
        rewrite <- sumt_mul_r. reflexivity. }
      rewrite sumt_swap. apply sumt_ext; intros mid1. rewrite netop_cons, <- sumt_mul_l.
      apply sumt_ext; intros mid2. ring.
Qed.
Corollary sweep_left_netop r A rest ws es :
  Forall (colwf r) (A :: rest) -> hchain (A :: rest) ->
  inr ws (map dwo A) -> inr es (map deo (last rest A)) ->
  opc (fold_left pairwise rest A) O ws es = netop (A :: rest) ws es.
Proof.
  intros HF HH Hws Hes. inversion HF; subst.
  rewrite (sweep_left_sem r rest A A ws es) by auto.
  destruct rest; reflexivity.
Qed.

(* ---- splitting the network: netop of a concatenation ---- *)
Lemma netop_app l1 : forall l2 ws es, l1 <> [] -> l2 <> [] ->
  netop (l1 ++ l2) ws es
  = sumt (map deo (last l1 [])) (fun mid => netop l1 ws mid * netop l2 mid es).
Proof.
  induction l1 as [|A l1 IH]; intros l2 ws es H1 H2; [contradiction|].
  destruct l1 as [|B l1].
  - cbn [app last]. destruct l2 as [|C l2]; [contradiction|]. reflexivity.
  - change ((A :: B :: l1) ++ l2) with (A :: (B :: l1) ++ l2).
    destruct ((B :: l1) ++ l2) as [|B0 rest0] eqn:E; [discriminate|].
    rewrite netop_cons, <- E. clear E.
    change (last (A :: B :: l1) []) with (last (B :: l1) []).
    transitivity (sumt (map deo A) (fun mid1 => sumt (map deo (last (B :: l1) [])) (fun mid =>
                    opc A O ws mid1 * (netop (B :: l1) mid1 mid * netop l2 mid es)))).
    { apply sumt_ext; intros mid1. rewrite IH by (auto; discriminate). rewrite sumt_mul_l. reflexivity. }
    rewrite sumt_swap. apply sumt_ext; intros mid. rewrite netop_cons, <- sumt_mul_r.
    apply sumt_ext; intros mid1. ring.
Qed.

End Sweep.
