(* Tensor/FourCosetsLattice.v — c10_four_cosets for the lattice families, ALL sizes.

   Tensor/FourCosets.v proves the four-coset statement relative to [normalizer_spanned] (every operator commuting
   with all stabilizer generators is a product of generators and logicals).  Here that proviso is DISCHARGED from
   the centralizer lemmas of the lattice files, so the statements below carry no hypothesis beyond the size
   constraints of the constructors.

   Generic, one logical qubit (sections FromCentralizer, FourCosetsProb, K1Family):
   * [normalizer_spanned_of_centralizer]  a centralizer lemma gives [normalizer_spanned];
   * [normalizer_coset_iff(_r)]           a normalizer element e lies in the coset X^a Z^b S  iff
                                          (a, b) = (e . lz, e . lx): exactly one of the four cosets S, X S, X Z S, Z S;
   * [four_cosets_of_centralizer], [four_cosets_label], [four_cosets_unique_candidate]
                                          the conclusion of [FourCosets.four_cosets_statement], with the label of the
                                          coset, and in the exists! form of Props/C10.c10_four_cosets_statement;
   * [partition_total]                    pairwise inequivalent representatives: the probability of the union of their
                                          cosets is the sum of the coset probabilities (Tensor/Coset.coset_prob), any ring;
   * [four_cosets_total_prob]             any duplicate-free list of the operators with the syndrome of f has total
                                          probability P(f S) + P(f X S) + P(f X Z S) + P(f Z S); [syndrome_class] is
                                          such a list.
   Instances, every size (planar: rows, cols >= 2; rotated planar: rows, cols >= 3):
     [planar_normalizer_spanned] [planar_normalizer_coset] [planar_four_cosets] (premises AND conclusion of
     [four_cosets_statement], see [four_cosets_statement_unfold]) [planar_four_cosets_label] [planar_four_cosets_c10]
     [planar_four_cosets_prob], and [rotplanar_*] likewise.
   Generic, k logical qubits (section KCosets): [knormalizer_coset_iff] [kcosets_label] [kcosets_exactly_one]
     [kcosets_inequivalent] [kcosets_total_prob] (4^k cosets).
   Sixteen cosets, every size (toric: rows, cols >= 2; rotated toric: even rows, cols >= 2):
     [toric_normalizer_coset] [toric_sixteen_cosets] [toric_sixteen_prob], [rottoric_*] likewise.  The toric generator
     lists are dependent (two redundant generators); coset probabilities are taken over the n - 2 independent generators
     [toric_reduced_stabs] / [rottoric_reduced_stabs], which generate the same group.

   Still open (unchanged, in Tensor/FourCosets.v): [four_cosets_statement] for EVERY code with n - 1 independent
   commuting generators, i.e. the rank-nullity step [normalizer_counting_statement]. *)
From Coq Require Import List Arith Lia Bool ZArith Permutation.
From QV Require Import Core.Bits Core.Pauli Core.Symp Core.Code Core.Span Core.Rank Core.Dist Core.Enum
  Lattice.Planar Lattice.PlanarAll Lattice.PlanarRankAll Lattice.PlanarDistAll
  Lattice.RotPlanar Lattice.RotPlanarAll Lattice.RotPlanarValidAll Lattice.RotPlanarRankAll Lattice.RotPlanarDistAll
  Lattice.Toric Lattice.ToricAll Lattice.ToricRankAll Lattice.RotToric Lattice.RotToricValidAll Lattice.RotToricRankAll
  Tensor.Sums Tensor.Coset Tensor.FourCosets.
Import ListNotations.
Local Open Scope nat_scope.

(* ================================================================== *)
(** * 1. From a centralizer lemma to [normalizer_spanned] (k = 1)       *)
(* ================================================================== *)
Section FromCentralizer.
Variable N : nat.
Hypothesis Neven : Nat.even N = true.
Variables (gens : list bsf) (lx lz : bsf).
Hypothesis gens_len : rowlen N gens.
Hypothesis lx_len : length lx = N.
Hypothesis lz_len : length lz = N.
Hypothesis lx_comm : forall g, In g gens -> bsp lx g = false.
Hypothesis lz_comm : forall g, In g gens -> bsp lz g = false.
Hypothesis lx_lz : bsp lx lz = true.
(* the centralizer lemma: what commutes with the generators and with both logicals is a product of generators *)
Hypothesis centralizer : forall t, length t = N -> (forall g, In g gens -> bsp t g = false) ->
  bsp t lx = false -> bsp t lz = false -> in_spanP N gens t.

Local Notation lp := (lpart N lx lz).
Local Notation cnd := (cand N lx lz).

Lemma xorv_xorv_cancel_r a b : length a = length b -> xorv (xorv a b) b = a.
Proof.
  intros L. rewrite xorv_assoc, xorv_self, <- L. apply xorv_zeros_r.
Qed.

(* subtracting the logical part read off the commutators lands in the centralizer *)
Lemma strip_in_span t : length t = N -> (forall g, In g gens -> bsp t g = false) ->
  in_spanP N gens (xorv t (lp (bsp lz t) (bsp lx t))).
Proof.
  intros Lt Ht. set (a := bsp lz t). set (b := bsp lx t).
  pose proof (lpart_len N lx lz lx_len lz_len a b) as Ll.
  assert (Lt' : length (xorv t (lp a b)) = N) by (rewrite xorv_length; congruence).
  apply centralizer.
  - exact Lt'.
  - intros g Hg. rewrite bsp_linear_l by congruence. rewrite (Ht g Hg).
    rewrite (lpart_comm N Neven gens lx lz) by assumption. reflexivity.
  - rewrite bsp_sym by (rewrite ?Lt'; auto; congruence).
    rewrite bsp_linear_r by congruence.
    rewrite (bsp_lx_lpart N Neven lx lz lx_len lz_len lx_lz). fold b. apply xorb_nilpotent.
  - rewrite bsp_sym by (rewrite ?Lt'; auto; congruence).
    rewrite bsp_linear_r by congruence.
    rewrite (bsp_lz_lpart N Neven lx lz lx_len lz_len lx_lz). fold a. apply xorb_nilpotent.
Qed.

(* the proviso of Tensor/FourCosets.v *)
Theorem normalizer_spanned_of_centralizer : normalizer_spanned N gens lx lz.
Proof.
  intros t Lt Ht. destruct (strip_in_span t Lt Ht) as (cs & Lcs & Ecs).
  set (a := bsp lz t) in *. set (b := bsp lx t) in *.
  pose proof (lpart_len N lx lz lx_len lz_len a b) as Ll.
  exists (cs ++ [a; b]). split; [rewrite !app_length; cbn [length]; lia|].
  rewrite (lincomb_app N) by (auto; repeat constructor; assumption).
  rewrite Ecs. fold (lp a b). apply xorv_xorv_cancel_r. congruence.
Qed.

(* a normalizer element lies in exactly one of the four cosets S, X S, X Z S, Z S, and the coset is read off
   its commutators with the two logicals *)
Theorem normalizer_coset_iff e a b : length e = N -> (forall g, In g gens -> bsp e g = false) ->
  (in_spanP N gens (xorv e (lp a b)) <-> a = bsp lz e /\ b = bsp lx e).
Proof.
  intros Le He. split.
  - intros Hs.
    assert (Lz : length (zeros N) = N) by apply zeros_length.
    assert (Ec : cnd (zeros N) a b = lp a b).
    { unfold cand. apply xorv_zeros_l. apply lpart_len; assumption. }
    rewrite <- Ec in Hs.
    destruct (four_cosets_at_most_one N Neven gens lx lz gens_len lx_len lz_len lx_comm lz_comm lx_lz
                e (zeros N) a b Le Lz Hs) as [Ha Hb].
    rewrite (FourCosets.bsp_zeros_r N), xorb_false_r in Ha, Hb. auto.
  - intros [-> ->]. now apply strip_in_span.
Qed.
Corollary normalizer_coset_exactly_one e : length e = N -> (forall g, In g gens -> bsp e g = false) ->
  exists a b, in_spanP N gens (xorv e (lp a b))
              /\ forall a' b', in_spanP N gens (xorv e (lp a' b')) -> a' = a /\ b' = b.
Proof.
  intros Le He. exists (bsp lz e), (bsp lx e). split.
  - now apply (proj2 (normalizer_coset_iff e _ _ Le He)).
  - intros a' b' H. now apply (proj1 (normalizer_coset_iff e a' b' Le He)).
Qed.

(* the conclusion of [four_cosets_statement], with the label of the coset *)
Theorem four_cosets_of_centralizer e f : length e = N -> length f = N ->
  (forall g, In g gens -> bsp e g = bsp f g) ->
  exists a b, in_spanP N gens (xorv e (cnd f a b))
              /\ forall a' b', in_spanP N gens (xorv e (cnd f a' b')) -> a' = a /\ b' = b.
Proof.
  intros Le Lf Hs.
  apply (four_cosets_exactly_one N Neven gens lx lz); auto. apply normalizer_spanned_of_centralizer.
Qed.
Theorem four_cosets_label e f a b : length e = N -> length f = N ->
  (forall g, In g gens -> bsp e g = bsp f g) ->
  (in_spanP N gens (xorv e (cnd f a b)) <-> a = xorb (bsp lz e) (bsp lz f) /\ b = xorb (bsp lx e) (bsp lx f)).
Proof.
  intros Le Lf Hs. split.
  - now apply (four_cosets_at_most_one N Neven gens lx lz).
  - intros [Ha Hb]. destruct (four_cosets_of_centralizer e f Le Lf Hs) as (a0 & b0 & H0 & _).
    destruct (four_cosets_at_most_one N Neven gens lx lz gens_len lx_len lz_len lx_comm lz_comm lx_lz e f a0 b0 Le Lf H0)
      as [Ha0 Hb0].
    subst a b. rewrite <- Ha0, <- Hb0. exact H0.
Qed.

(* the same, with the commutators written e . lz and e . lx *)
Corollary normalizer_coset_iff_r e a b : length e = N -> (forall g, In g gens -> bsp e g = false) ->
  (in_spanP N gens (xorv e (lp a b)) <-> a = bsp e lz /\ b = bsp e lx).
Proof.
  intros Le He. rewrite (bsp_sym e lz), (bsp_sym e lx) by (rewrite ?Le; auto; congruence).
  now apply normalizer_coset_iff.
Qed.
(* the four logical parts are I, X, XZ, Z *)
Lemma lpart_list : [lp false false; lp true false; lp true true; lp false true] = [zeros N; lx; xorv lx lz; lz].
Proof.
  unfold lpart. cbn [lincomb].
  assert (Ex : xorv lx (zeros N) = lx) by (rewrite <- lx_len; apply xorv_zeros_r).
  assert (Ez : xorv lz (zeros N) = lz) by (rewrite <- lz_len; apply xorv_zeros_r).
  now rewrite Ez, Ex.
Qed.

(* in the form of Props/C10.c10_four_cosets_statement: exactly one of the decoders' candidates f, f X, f X Z, f Z
   is equivalent to e *)
Theorem four_cosets_unique_candidate e f : length e = N -> length f = N ->
  (forall g, In g gens -> bsp e g = bsp f g) ->
  exists! c, In c [f; xorv f lx; xorv (xorv f lx) lz; xorv f lz] /\ in_spanP N gens (xorv e c).
Proof.
  intros Le Lf Hs. rewrite <- (cand_list N lx lz lx_len lz_len f Lf).
  destruct (four_cosets_of_centralizer e f Le Lf Hs) as (a & b & Hab & Hu).
  exists (cnd f a b). split.
  - split; [|exact Hab]. destruct a, b; cbn; auto.
  - intros c' [Hin Hc'].
    assert (Hex : exists a' b', c' = cnd f a' b').
    { cbn in Hin. destruct Hin as [<-|[<-|[<-|[<-|[]]]]]; eauto. }
    destruct Hex as (a' & b' & ->). destruct (Hu a' b' Hc') as [-> ->]. reflexivity.
Qed.

End FromCentralizer.

(* ================================================================== *)
(** * 2. Enumerations: all bit vectors, span lists, syndrome classes    *)
(* ================================================================== *)
(* all bit vectors of a given length, each once *)
Fixpoint allv (k : nat) : list bsf :=
  match k with O => [[]] | S k' => map (cons false) (allv k') ++ map (cons true) (allv k') end.
Lemma allv_spec k : forall v, In v (allv k) <-> length v = k.
Proof.
  induction k as [|k IH]; intros v; cbn [allv].
  - split; [intros [<-|[]]; reflexivity|]. destruct v; [left; reflexivity|discriminate].
  - rewrite in_app_iff, !in_map_iff. split.
    + intros [(u & <- & Hu)|(u & <- & Hu)]; cbn [length]; f_equal; now apply IH.
    + destruct v as [|[|] v]; [discriminate| |]; cbn [length]; intros H; [right|left]; exists v;
        (split; [reflexivity|apply IH; lia]).
Qed.
Lemma allv_nodup k : NoDup (allv k).
Proof.
  induction k as [|k IH]; cbn [allv]; [constructor; [intros []|constructor]|].
  apply Core.Enum.nodup_app; try now apply Core.Enum.NoDup_map_cons.
  intros x Hx Hy. apply in_map_iff in Hx, Hy. destruct Hx as (u & <- & _), Hy as (u' & E & _). discriminate.
Qed.
Lemma allv_length k : length (allv k) = 2 ^ k.
Proof. induction k as [|k IH]; cbn [allv]; [reflexivity|]. rewrite app_length, !map_length, IH. cbn. lia. Qed.

(* the operators of length N with the syndrome of f, each once *)
Definition syndrome_class (N : nat) (gens : list bsf) (f : bsf) : list bsf :=
  filter (fun e => beqv (syndrome_of gens e) (syndrome_of gens f)) (allv N).
Lemma syndrome_class_spec N gens f e :
  In e (syndrome_class N gens f) <-> length e = N /\ forall g, In g gens -> bsp e g = bsp f g.
Proof.
  unfold syndrome_class. rewrite filter_In, allv_spec, beqv_spec. unfold syndrome_of.
  split; intros [H1 H2]; (split; [exact H1|]).
  - intros g Hg. rewrite map_ext_in_iff in H2. exact (H2 g Hg).
  - apply map_ext_in. exact H2.
Qed.
Lemma syndrome_class_nodup N gens f : NoDup (syndrome_class N gens f).
Proof. apply NoDup_filter, allv_nodup. Qed.

(* Tensor/Coset.span_list enumerates exactly the span of Core/Span.v ... *)
Lemma span_list_iff len : forall gens v, In v (span_list len gens) <-> in_spanP len gens v.
Proof.
  induction gens as [|g gs IH]; intros v; cbn [span_list].
  - split.
    + intros [<-|[]]. exists []. split; reflexivity.
    + intros (cs & Lcs & E). destruct cs; [|discriminate]. left. exact E.
  - rewrite in_app_iff. split.
    + intros [H|H].
      * apply IH in H. destruct H as (cs & L & E). exists (false :: cs). split; [cbn [length]; lia|exact E].
      * apply in_map_iff in H. destruct H as (u & <- & Hu). apply IH in Hu. destruct Hu as (cs & L & E).
        exists (true :: cs). split; [cbn [length]; lia|]. cbn [lincomb]. now rewrite E.
    + intros (cs & L & E). destruct cs as [|c cs]; [discriminate|]. cbn [length] in L. cbn [lincomb] in E. destruct c.
      * right. apply in_map_iff. exists (lincomb len cs gs). split; [exact E|]. apply IH. exists cs. split; [lia|reflexivity].
      * left. apply IH. exists cs. split; [lia|exact E].
Qed.
(* ... and independence in the sense of Core/Rank.v gives independence in the sense of Tensor/Coset.v *)
Lemma independent_tl n g gs : independent n (g :: gs) -> independent n gs.
Proof.
  intros H cs L E. specialize (H (false :: cs)). cbn [length lincomb] in H. specialize (H ltac:(lia) E).
  cbn in H. injection H. auto.
Qed.
Lemma indep_of_independent_rows n : forall gens, rowlen n gens -> independent n gens -> indep n gens.
Proof.
  induction gens as [|g gs IH]; intros HL HI; cbn [indep]; [exact I|].
  inversion HL as [|? ? Lg HL']; subst. split.
  - intros Hin. apply span_list_iff in Hin. destruct Hin as (cs & L & E).
    specialize (HI (true :: cs)). cbn [length lincomb] in HI. rewrite E, xorv_self in HI.
    specialize (HI ltac:(lia) eq_refl). discriminate.
  - apply IH; auto. eapply independent_tl; eauto.
Qed.

Lemma NoDup_map_in {A B} (f : A -> B) l :
  (forall x y, In x l -> In y l -> f x = f y -> x = y) -> NoDup l -> NoDup (map f l).
Proof.
  induction l as [|a l IH]; intros Hinj Hnd; cbn [map]; [constructor|].
  inversion Hnd as [|? ? Ha Hl]; subst. constructor.
  - intros Hin. apply in_map_iff in Hin. destruct Hin as (y & E & Hy).
    assert (y = a) by (apply Hinj; cbn; auto). subst. contradiction.
  - apply IH; auto. intros x y Hx Hy. apply Hinj; cbn; auto.
Qed.
Lemma xorv_cancel_mid : forall a x b, length a = length x -> length x = length b ->
  xorv (xorv a x) (xorv b x) = xorv a b.
Proof.
  induction a as [|p a IH]; intros [|q x] [|r b] L1 L2; cbn in *; try discriminate; auto.
  f_equal; [now destruct p, q, r|apply IH; lia].
Qed.
Lemma xorv_cancel_r a b : length a = length b -> xorv (xorv a b) a = b.
Proof. intros L. rewrite xorv_comm. now apply xorv_cancel_l. Qed.

(* ================================================================== *)
(** * 3. Cosets partition a class: total probability = sum of coset probabilities *)
(* ================================================================== *)
Section TotalProb.
Variable K : cring.
Add Ring Kring_fcl : (cring_th K).
Variable d : dist K.
Variable n : nat.
Variable gens : list bsf.
Hypothesis gens_len : rowlen (n + n) gens.
Hypothesis gens_ind : indep (n + n) gens.
Local Notation SP := (span_list (n + n) gens).
Local Notation "x +! y" := (radd K x y) (at level 50, left associativity).

Definition coset_list (r : bsf) : list bsf := map (xorv r) SP.
Lemma coset_prob_list r : coset_prob K d n gens r = sum_list K (map (prob K d n) (coset_list r)).
Proof. unfold coset_prob, coset_list. now rewrite map_map. Qed.
Lemma sum_list_app_fcl a b : sum_list K (a ++ b) = sum_list K a +! sum_list K b.
Proof. unfold sum_list. induction a as [|x a IH]; cbn [app fold_right]; [ring|]. rewrite IH. ring. Qed.
Lemma sum_map_flat_map {A B} (P : B -> K) (F : A -> list B) l :
  sum_list K (map P (flat_map F l)) = sum_list K (map (fun a => sum_list K (map P (F a))) l).
Proof.
  induction l as [|a l IH]; cbn [flat_map map]; [reflexivity|].
  rewrite map_app, sum_list_app_fcl, IH. reflexivity.
Qed.
Lemma SP_length v : In v SP -> length v = n + n.
Proof. intros H. pose proof (span_length (n + n) gens gens_len) as HL. rewrite Forall_forall in HL. auto. Qed.
Lemma coset_list_spec r e : length r = n + n ->
  (In e (coset_list r) <-> length e = n + n /\ In (xorv e r) SP).
Proof.
  intros Lr. unfold coset_list. rewrite in_map_iff. split.
  - intros (u & <- & Hu). pose proof (SP_length u Hu) as Lu. split; [rewrite xorv_length; congruence|].
    rewrite xorv_cancel_r by congruence. exact Hu.
  - intros [Le Hu]. exists (xorv e r). split; [|exact Hu]. rewrite (xorv_comm e r). apply xorv_cancel_l. congruence.
Qed.
Lemma coset_list_nodup r : length r = n + n -> NoDup (coset_list r).
Proof.
  intros Lr. unfold coset_list. apply NoDup_map_in; [|now apply span_nodup].
  intros x y Hx Hy E. pose proof (SP_length x Hx). pose proof (SP_length y Hy).
  rewrite <- (xorv_cancel_l r x), <- (xorv_cancel_l r y) by congruence. now rewrite E.
Qed.

(* labelled coset representatives, pairwise inequivalent: their cosets partition the union *)
Theorem partition_total {A} (labs : list A) (rep : A -> bsf) (L : list bsf) :
  NoDup labs -> (forall x, In x labs -> length (rep x) = n + n) ->
  (forall x y, In x labs -> In y labs -> In (xorv (rep x) (rep y)) SP -> x = y) ->
  NoDup L ->
  (forall e, In e L <-> length e = n + n /\ exists x, In x labs /\ In (xorv e (rep x)) SP) ->
  sum_list K (map (prob K d n) L) = sum_list K (map (fun x => coset_prob K d n gens (rep x)) labs).
Proof.
  intros Hnd Hlen Hineq HL Hmem.
  set (L2 := flat_map (fun x => coset_list (rep x)) labs).
  assert (N2 : NoDup L2).
  { apply Core.Enum.nodup_flat_map; [exact Hnd|intros a Ha; apply coset_list_nodup; auto|].
    intros a b x Ha Hb Hxa Hxb.
    apply coset_list_spec in Hxa; [|auto]. apply coset_list_spec in Hxb; [|auto].
    destruct Hxa as [Lx Hxa], Hxb as [_ Hxb]. apply Hineq; auto.
    pose proof (Hlen a Ha) as La. pose proof (Hlen b Hb) as Lb.
    rewrite <- (xorv_cancel_mid (rep a) x (rep b)) by congruence.
    rewrite (xorv_comm (rep a) x), (xorv_comm (rep b) x). apply span_closed; auto. }
  assert (P : Permutation L L2).
  { apply NoDup_Permutation; auto. intros e. rewrite Hmem. unfold L2. rewrite in_flat_map. split.
    - intros [Le (x & Hx & Hs)]. exists x. split; [exact Hx|]. apply coset_list_spec; auto.
    - intros (x & Hx & He). apply coset_list_spec in He; [|auto]. destruct He as [Le He]. split; [exact Le|]. eauto. }
  rewrite (sum_list_perm K _ _ (Permutation_map (prob K d n) P)). unfold L2.
  rewrite sum_map_flat_map. f_equal. apply map_ext. intros x. symmetry. apply coset_prob_list.
Qed.
End TotalProb.

(* ================================================================== *)
(** * 4. k = 1: the four coset probabilities sum to the probability of the syndrome *)
(* ================================================================== *)
Section FourCosetsProb.
Variable n : nat.
Local Notation N := (n + n).
Variables (gens : list bsf) (lx lz : bsf).
Hypothesis gens_len : rowlen N gens.
Hypothesis gens_ind : independent N gens.
Hypothesis gens_comm : forall g h, In g gens -> In h gens -> bsp g h = false.
Hypothesis lx_len : length lx = N.
Hypothesis lz_len : length lz = N.
Hypothesis lx_comm : forall g, In g gens -> bsp lx g = false.
Hypothesis lz_comm : forall g, In g gens -> bsp lz g = false.
Hypothesis lx_lz : bsp lx lz = true.
Hypothesis centralizer : forall t, length t = N -> (forall g, In g gens -> bsp t g = false) ->
  bsp t lx = false -> bsp t lz = false -> in_spanP N gens t.
Variable K : cring.
Add Ring Kring_fcp : (cring_th K).
Variable d : dist K.
Local Notation "x +! y" := (radd K x y) (at level 50, left associativity).
Local Notation cnd := (cand N lx lz).

Definition four_labels : list (bool * bool) := [(false, false); (true, false); (true, true); (false, true)].
Lemma four_labels_nodup : NoDup four_labels.
Proof. unfold four_labels. repeat constructor; cbn; intuition discriminate. Qed.
Lemma four_labels_all ab : In ab four_labels.
Proof. destruct ab as [[|] [|]]; cbn; auto. Qed.

Theorem four_cosets_total_prob f L : length f = N -> NoDup L ->
  (forall e, In e L <-> length e = N /\ forall g, In g gens -> bsp e g = bsp f g) ->
  sum_list K (map (prob K d n) L)
  = coset_prob K d n gens f +! coset_prob K d n gens (xorv f lx)
    +! coset_prob K d n gens (xorv (xorv f lx) lz) +! coset_prob K d n gens (xorv f lz).
Proof.
  intros Lf HL Hmem.
  pose proof (even_double n) as Ev.
  assert (Lc : forall a b, length (cnd f a b) = N).
  { intros a b. unfold cand. rewrite xorv_length; rewrite ?(lpart_len N lx lz lx_len lz_len); auto. }
  rewrite (partition_total K d n gens gens_len (indep_of_independent_rows N gens gens_len gens_ind)
             four_labels (fun ab => cnd f (fst ab) (snd ab)) L four_labels_nodup).
  - pose proof (cand_list N lx lz lx_len lz_len f Lf) as E. injection E as E1 E2 E3 E4.
    unfold four_labels. cbn [map fst snd sum_list fold_right]. rewrite E1, E2, E3, E4. ring.
  - intros x _. apply Lc.
  - intros [a b] [a' b'] _ _ Hs. cbn [fst snd] in Hs. apply span_list_iff in Hs.
    destruct (four_cosets_inequivalent N Ev gens lx lz gens_len lx_len lz_len lx_comm lz_comm lx_lz f a b a' b' Lf Hs)
      as [-> ->]. reflexivity.
  - exact HL.
  - intros e. rewrite Hmem. split.
    + intros [Le Hs]. split; [exact Le|].
      destruct (four_cosets_of_centralizer N Ev gens lx lz gens_len lx_len lz_len lx_comm lz_comm lx_lz centralizer
                  e f Le Lf Hs) as (a & b & Hab & _).
      exists (a, b). split; [apply four_labels_all|]. cbn [fst snd]. now apply span_list_iff.
    + intros [Le ([a b] & _ & Hs)]. split; [exact Le|]. cbn [fst snd] in Hs. apply span_list_iff in Hs.
      intros g Hg.
      rewrite <- (four_cosets_syndrome N Ev gens lx lz gens_len lx_len lz_len lx_comm lz_comm f a b g Lf Hg).
      pose proof (proj1 (Forall_forall _ _) gens_len g Hg) as Lg.
      pose proof (bsp_span_r N gens gens_len g _ (fun h Hh => gens_comm g h Hg Hh) Hs) as H0.
      rewrite bsp_linear_r in H0 by (rewrite Lc; exact Le).
      rewrite (bsp_sym e g), (bsp_sym (cnd f a b) g) by (rewrite ?Lc, ?Le; auto; congruence).
      now destruct (bsp g e), (bsp g (cnd f a b)).
Qed.
End FourCosetsProb.

(* ================================================================== *)
(** * 5. One-logical-qubit codes with a centralizer lemma: everything at once *)
(* ================================================================== *)
(* the premises of [FourCosets.four_cosets_statement] about the code ... *)
Definition four_cosets_premises (n : nat) (gens : list bsf) (lx lz : bsf) : Prop :=
  rowlen (n + n) (lx :: lz :: gens) /\ independent (n + n) gens /\ S (length gens) = n /\
  (forall g h, In g gens -> In h gens -> bsp g h = false) /\
  (forall g, In g gens -> bsp lx g = false /\ bsp lz g = false) /\ bsp lx lz = true.
(* ... and its conclusion *)
Definition four_cosets_conclusion (n : nat) (gens : list bsf) (lx lz : bsf) : Prop :=
  forall f e, length f = n + n -> length e = n + n -> (forall g, In g gens -> bsp e g = bsp f g) ->
    exists a b, in_spanP (n + n) gens (xorv e (cand (n + n) lx lz f a b))
                /\ forall a' b', in_spanP (n + n) gens (xorv e (cand (n + n) lx lz f a' b')) -> a' = a /\ b' = b.
(* [four_cosets_statement] says: premises -> conclusion, for every code; below the conclusion is proved for the
   planar and rotated planar codes of every size, whose premises hold as well *)
Lemma four_cosets_statement_unfold :
  four_cosets_statement <-> forall n gens lx lz, four_cosets_premises n gens lx lz -> four_cosets_conclusion n gens lx lz.
Proof.
  unfold four_cosets_statement, four_cosets_premises, four_cosets_conclusion. split.
  - intros H n gens lx lz (HL & HI & Hm & Hgg & Hl & Hxz) f e Lf Le Hs.
    apply H; auto. pose proof (Forall_inv HL) as Lx. pose proof (Forall_inv_tail HL) as HL1.
    pose proof (Forall_inv HL1) as Lz. pose proof (Forall_inv_tail HL1) as HL2. cbn beta in Lx, Lz.
    repeat constructor; auto.
  - intros H n gens lx lz f e HL HI Hm Hgg Hl Hxz Hs.
    pose proof (Forall_inv HL) as Lx. pose proof (Forall_inv_tail HL) as HL1.
    pose proof (Forall_inv HL1) as Lz. pose proof (Forall_inv_tail HL1) as HL2.
    pose proof (Forall_inv HL2) as Lf. pose proof (Forall_inv_tail HL2) as HL3.
    pose proof (Forall_inv HL3) as Le. pose proof (Forall_inv_tail HL3) as Lg. cbn beta in Lx, Lz, Lf, Le.
    apply (H n gens lx lz); auto. refine (conj _ (conj HI (conj Hm (conj Hgg (conj Hl Hxz))))).
    repeat constructor; auto.
Qed.

(* the certificate delivered by the lattice files *)
Definition k1_certificate (n : nat) (gens : list bsf) (lx lz : bsf) : Prop :=
  four_cosets_premises n gens lx lz /\
  (forall t, length t = n + n -> (forall g, In g gens -> bsp t g = false) ->
     bsp t lx = false -> bsp t lz = false -> in_spanP (n + n) gens t).

Section K1Family.
Variable n : nat.
Local Notation N := (n + n).
Variables (gens : list bsf) (lx lz : bsf).
Hypothesis cert : k1_certificate n gens lx lz.

Let Ev : Nat.even N = true := even_double n.
Lemma k1_gens_len : rowlen N gens.
Proof. destruct cert as ((HL & _) & _). exact (Forall_inv_tail (Forall_inv_tail HL)). Qed.
Lemma k1_lx_len : length lx = N.
Proof. destruct cert as ((HL & _) & _). exact (Forall_inv HL). Qed.
Lemma k1_lz_len : length lz = N.
Proof. destruct cert as ((HL & _) & _). exact (Forall_inv (Forall_inv_tail HL)). Qed.
Lemma k1_ind : independent N gens.
Proof. apply cert. Qed.
Lemma k1_gens_comm : forall g h, In g gens -> In h gens -> bsp g h = false.
Proof. apply cert. Qed.
Lemma k1_lx_comm : forall g, In g gens -> bsp lx g = false.
Proof. intros g Hg. destruct cert as ((_ & _ & _ & _ & Hl & _) & _). now apply Hl. Qed.
Lemma k1_lz_comm : forall g, In g gens -> bsp lz g = false.
Proof. intros g Hg. destruct cert as ((_ & _ & _ & _ & Hl & _) & _). now apply Hl. Qed.
Lemma k1_lx_lz : bsp lx lz = true.
Proof. apply cert. Qed.
Lemma k1_centralizer : forall t, length t = N -> (forall g, In g gens -> bsp t g = false) ->
  bsp t lx = false -> bsp t lz = false -> in_spanP N gens t.
Proof. apply cert. Qed.

Theorem k1_normalizer_spanned : normalizer_spanned N gens lx lz.
Proof.
  apply normalizer_spanned_of_centralizer;
    auto using k1_gens_len, k1_lx_len, k1_lz_len, k1_lx_comm, k1_lz_comm, k1_lx_lz, k1_centralizer.
Qed.
Theorem k1_normalizer_coset e a b : length e = N -> normalizer gens e ->
  (in_spanP N gens (xorv e (lpart N lx lz a b)) <-> a = bsp e lz /\ b = bsp e lx).
Proof.
  intros Le He. apply normalizer_coset_iff_r;
    auto using k1_gens_len, k1_lx_len, k1_lz_len, k1_lx_comm, k1_lz_comm, k1_lx_lz, k1_centralizer.
Qed.
Theorem k1_four_cosets : four_cosets_conclusion n gens lx lz.
Proof.
  intros f e Lf Le Hs. apply four_cosets_of_centralizer;
    auto using k1_gens_len, k1_lx_len, k1_lz_len, k1_lx_comm, k1_lz_comm, k1_lx_lz, k1_centralizer.
Qed.
Theorem k1_four_cosets_label f e a b : length f = N -> length e = N -> (forall g, In g gens -> bsp e g = bsp f g) ->
  (in_spanP N gens (xorv e (cand N lx lz f a b)) <-> a = xorb (bsp lz e) (bsp lz f) /\ b = xorb (bsp lx e) (bsp lx f)).
Proof.
  intros Lf Le Hs. apply four_cosets_label;
    auto using k1_gens_len, k1_lx_len, k1_lz_len, k1_lx_comm, k1_lz_comm, k1_lx_lz, k1_centralizer.
Qed.
Theorem k1_four_cosets_syndrome f a b g : length f = N -> In g gens -> bsp (cand N lx lz f a b) g = bsp f g.
Proof.
  intros Lf Hg. apply (four_cosets_syndrome N Ev gens);
    auto using k1_gens_len, k1_lx_len, k1_lz_len, k1_lx_comm, k1_lz_comm.
Qed.
Theorem k1_four_cosets_inequivalent f a b a' b' : length f = N ->
  in_spanP N gens (xorv (cand N lx lz f a b) (cand N lx lz f a' b')) -> a = a' /\ b = b'.
Proof.
  intros Lf. apply (four_cosets_inequivalent N Ev gens);
    auto using k1_gens_len, k1_lx_len, k1_lz_len, k1_lx_comm, k1_lz_comm, k1_lx_lz.
Qed.
(* Props/C10.c10_four_cosets_statement's conclusion, literally (span_list, indep) *)
Theorem k1_four_cosets_c10 f e : length f = N -> length e = N -> (forall g, In g gens -> bsp e g = bsp f g) ->
  indep N gens /\
  exists! c, In c [f; xorv f lx; xorv (xorv f lx) lz; xorv f lz] /\ In (xorv e c) (span_list N gens).
Proof.
  intros Lf Le Hs. split; [apply indep_of_independent_rows; auto using k1_gens_len, k1_ind|].
  destruct (four_cosets_unique_candidate N Ev gens lx lz k1_gens_len k1_lx_len k1_lz_len k1_lx_comm k1_lz_comm k1_lx_lz
              k1_centralizer e f Le Lf Hs) as (c & [Hin Hc] & Hu).
  exists c. split; [split; [exact Hin|now apply span_list_iff]|].
  intros c' [Hin' Hc']. apply Hu. split; [exact Hin'|now apply span_list_iff].
Qed.
(* the four coset probabilities add up to the probability of the syndrome, in any commutative ring *)
Theorem k1_four_cosets_prob (K : cring) (d : dist K) f L : length f = N -> NoDup L ->
  (forall e, In e L <-> length e = N /\ forall g, In g gens -> bsp e g = bsp f g) ->
  sum_list K (map (prob K d n) L)
  = radd K (radd K (radd K (coset_prob K d n gens f) (coset_prob K d n gens (xorv f lx)))
                   (coset_prob K d n gens (xorv (xorv f lx) lz))) (coset_prob K d n gens (xorv f lz)).
Proof.
  intros Lf HL Hmem. apply four_cosets_total_prob;
    auto using k1_gens_len, k1_ind, k1_gens_comm, k1_lx_len, k1_lz_len, k1_lx_comm, k1_lz_comm, k1_lx_lz, k1_centralizer.
Qed.
Theorem k1_four_cosets_prob_enum (K : cring) (d : dist K) f : length f = N ->
  sum_list K (map (prob K d n) (syndrome_class N gens f))
  = radd K (radd K (radd K (coset_prob K d n gens f) (coset_prob K d n gens (xorv f lx)))
                   (coset_prob K d n gens (xorv (xorv f lx) lz))) (coset_prob K d n gens (xorv f lz)).
Proof.
  intros Lf. apply k1_four_cosets_prob; [exact Lf|apply syndrome_class_nodup|apply syndrome_class_spec].
Qed.
End K1Family.

(* ================================================================== *)
(** * 6. The planar code, every size                                    *)
(* ================================================================== *)
Section PlanarFourCosets.
Variables rows cols : Z.
Hypothesis Hr : (2 <= rows)%Z.
Hypothesis Hc : (2 <= cols)%Z.
Local Notation n := (planar_n rows cols).
Local Notation STABS := (stabs (planar_code rows cols)).
Local Notation lx := (lxop rows cols).
Local Notation lz := (lzop rows cols).

Theorem planar_four_cosets_premises : four_cosets_premises n STABS lx lz.
Proof.
  pose proof (proj1 (validate_iff_canonical (planar_code rows cols) eq_refl) (planar_valid_all rows cols Hr Hc))
    as (Hss & _ & _).
  split; [|split; [|split; [|split; [|split]]]].
  - constructor; [apply PlanarAll.sop_length|]. constructor; [apply PlanarAll.sop_length|]. apply PlanarRankAll.stabs_rowlen.
  - now apply planar_stabilizers_independent_rank.
  - now apply planar_stabilizers_length.
  - exact Hss.
  - intros g Hg. split; [now apply (lxop_normalizer rows cols Hr Hc)|now apply (lzop_normalizer rows cols Hr Hc)].
  - exact (proj1 (planar_logicals_anticommute rows cols Hr Hc)).
Qed.
Theorem planar_k1_certificate : k1_certificate n STABS lx lz.
Proof.
  split; [exact planar_four_cosets_premises|]. intros t Lt Ht Hx Hz. now apply planar_centralizer.
Qed.
End PlanarFourCosets.

(* [normalizer_spanned], the proviso of Tensor/FourCosets.v, holds for every planar code *)
Theorem planar_normalizer_spanned : forall rows cols, (2 <= rows)%Z -> (2 <= cols)%Z ->
  let n := planar_n rows cols in
  normalizer_spanned (n + n) (stabs (planar_code rows cols)) (lxop rows cols) (lzop rows cols).
Proof. intros rows cols Hr Hc. exact (k1_normalizer_spanned _ _ _ _ (planar_k1_certificate rows cols Hr Hc)). Qed.
(* every normalizer element is in exactly one of the cosets S, X S, X Z S, Z S, read off (e . lz, e . lx) *)
Theorem planar_normalizer_coset : forall rows cols, (2 <= rows)%Z -> (2 <= cols)%Z ->
  let n := planar_n rows cols in let S := stabs (planar_code rows cols) in
  let lx := lxop rows cols in let lz := lzop rows cols in
  [lpart (n + n) lx lz false false; lpart (n + n) lx lz true false; lpart (n + n) lx lz true true; lpart (n + n) lx lz false true]
    = [zeros (n + n); lx; xorv lx lz; lz] /\
  forall e a b, length e = n + n -> normalizer S e ->
    (in_spanP (n + n) S (xorv e (lpart (n + n) lx lz a b)) <-> a = bsp e lz /\ b = bsp e lx).
Proof.
  intros rows cols Hr Hc. cbv zeta. pose proof (planar_k1_certificate rows cols Hr Hc) as C. split.
  - apply lpart_list; [exact (k1_lx_len _ _ _ _ C)|exact (k1_lz_len _ _ _ _ C)].
  - intros e a b. now apply (k1_normalizer_coset _ _ _ _ C).
Qed.
(* the conclusion of [four_cosets_statement] (and its premises): every e with the syndrome of f is equivalent to exactly
   one of f, f X, f X Z, f Z *)
Theorem planar_four_cosets : forall rows cols, (2 <= rows)%Z -> (2 <= cols)%Z ->
  four_cosets_premises (planar_n rows cols) (stabs (planar_code rows cols)) (lxop rows cols) (lzop rows cols) /\
  four_cosets_conclusion (planar_n rows cols) (stabs (planar_code rows cols)) (lxop rows cols) (lzop rows cols).
Proof.
  intros rows cols Hr Hc. split; [now apply planar_four_cosets_premises|].
  exact (k1_four_cosets _ _ _ _ (planar_k1_certificate rows cols Hr Hc)).
Qed.
(* ... with the label of the coset, the common syndrome and the pairwise inequivalence of the candidates *)
Theorem planar_four_cosets_label : forall rows cols, (2 <= rows)%Z -> (2 <= cols)%Z ->
  let n := planar_n rows cols in let S := stabs (planar_code rows cols) in
  let lx := lxop rows cols in let lz := lzop rows cols in
  forall f, length f = n + n ->
  [cand (n + n) lx lz f false false; cand (n + n) lx lz f true false; cand (n + n) lx lz f true true; cand (n + n) lx lz f false true]
    = [f; xorv f lx; xorv (xorv f lx) lz; xorv f lz] /\
  (forall a b g, In g S -> bsp (cand (n + n) lx lz f a b) g = bsp f g) /\
  (forall a b a' b', in_spanP (n + n) S (xorv (cand (n + n) lx lz f a b) (cand (n + n) lx lz f a' b')) -> a = a' /\ b = b') /\
  (forall e a b, length e = n + n -> (forall g, In g S -> bsp e g = bsp f g) ->
     (in_spanP (n + n) S (xorv e (cand (n + n) lx lz f a b))
      <-> a = xorb (bsp lz e) (bsp lz f) /\ b = xorb (bsp lx e) (bsp lx f))).
Proof.
  intros rows cols Hr Hc. cbv zeta. pose proof (planar_k1_certificate rows cols Hr Hc) as C. intros f Lf.
  split; [|split; [|split]].
  - apply cand_list; [exact (k1_lx_len _ _ _ _ C)|exact (k1_lz_len _ _ _ _ C)|exact Lf].
  - intros a b g Hg. now apply (k1_four_cosets_syndrome _ _ _ _ C).
  - intros a b a' b'. now apply (k1_four_cosets_inequivalent _ _ _ _ C).
  - intros e a b Le Hs. now apply (k1_four_cosets_label _ _ _ _ C).
Qed.
(* Props/C10.c10_four_cosets_statement's conclusion for the planar code *)
Theorem planar_four_cosets_c10 : forall rows cols, (2 <= rows)%Z -> (2 <= cols)%Z ->
  let n := planar_n rows cols in let S := stabs (planar_code rows cols) in
  forall f e, length f = n + n -> length e = n + n -> (forall g, In g S -> bsp e g = bsp f g) ->
  indep (n + n) S /\
  exists! c, In c [f; xorv f (lxop rows cols); xorv (xorv f (lxop rows cols)) (lzop rows cols); xorv f (lzop rows cols)]
             /\ In (xorv e c) (span_list (n + n) S).
Proof. intros rows cols Hr Hc. cbv zeta. exact (k1_four_cosets_c10 _ _ _ _ (planar_k1_certificate rows cols Hr Hc)). Qed.
(* the four coset probabilities sum to the total probability of the syndrome class *)
Theorem planar_four_cosets_prob : forall rows cols, (2 <= rows)%Z -> (2 <= cols)%Z ->
  let n := planar_n rows cols in let S := stabs (planar_code rows cols) in
  let lx := lxop rows cols in let lz := lzop rows cols in
  forall (K : cring) (d : dist K) f, length f = n + n ->
  (forall L, NoDup L -> (forall e, In e L <-> length e = n + n /\ forall g, In g S -> bsp e g = bsp f g) ->
     sum_list K (map (prob K d n) L)
     = radd K (radd K (radd K (coset_prob K d n S f) (coset_prob K d n S (xorv f lx)))
                      (coset_prob K d n S (xorv (xorv f lx) lz))) (coset_prob K d n S (xorv f lz))) /\
  sum_list K (map (prob K d n) (syndrome_class (n + n) S f))
     = radd K (radd K (radd K (coset_prob K d n S f) (coset_prob K d n S (xorv f lx)))
                      (coset_prob K d n S (xorv (xorv f lx) lz))) (coset_prob K d n S (xorv f lz)).
Proof.
  intros rows cols Hr Hc. cbv zeta. pose proof (planar_k1_certificate rows cols Hr Hc) as C. intros K d f Lf. split.
  - intros L. now apply (k1_four_cosets_prob _ _ _ _ C).
  - now apply (k1_four_cosets_prob_enum _ _ _ _ C).
Qed.

(* ================================================================== *)
(** * 7. The rotated planar code, every size                            *)
(* ================================================================== *)
Theorem rotplanar_four_cosets_premises : forall rows cols, (3 <= rows)%Z -> (3 <= cols)%Z ->
  four_cosets_premises (rp_n rows cols) (stabs (rotplanar_code rows cols)) (rp_lxop rows cols) (rp_lzop rows cols).
Proof.
  intros rows cols Hr Hc.
  pose proof (rotplanar_valid_all_conditions rows cols Hr Hc) as (Hss & _ & _). cbv zeta in Hss.
  split; [|split; [|split; [|split; [|split]]]].
  - constructor; [apply rp_sop_length|]. constructor; [apply rp_sop_length|]. now apply rp_stabs_rowlen.
  - now apply rotplanar_stabilizers_independent.
  - now apply rotplanar_stabilizers_length.
  - exact Hss.
  - intros g Hg. split; [now apply (rp_lxop_normalizer rows cols Hr Hc)|now apply (rp_lzop_normalizer rows cols Hr Hc)].
  - exact (proj1 (rotplanar_logicals_anticommute_all rows cols Hr Hc)).
Qed.
Theorem rotplanar_k1_certificate : forall rows cols, (3 <= rows)%Z -> (3 <= cols)%Z ->
  k1_certificate (rp_n rows cols) (stabs (rotplanar_code rows cols)) (rp_lxop rows cols) (rp_lzop rows cols).
Proof.
  intros rows cols Hr Hc. split; [now apply rotplanar_four_cosets_premises|].
  intros t Lt Ht Hx Hz. now apply rotplanar_centralizer.
Qed.

Theorem rotplanar_normalizer_spanned : forall rows cols, (3 <= rows)%Z -> (3 <= cols)%Z ->
  let n := rp_n rows cols in
  normalizer_spanned (n + n) (stabs (rotplanar_code rows cols)) (rp_lxop rows cols) (rp_lzop rows cols).
Proof. intros rows cols Hr Hc. exact (k1_normalizer_spanned _ _ _ _ (rotplanar_k1_certificate rows cols Hr Hc)). Qed.
Theorem rotplanar_normalizer_coset : forall rows cols, (3 <= rows)%Z -> (3 <= cols)%Z ->
  let n := rp_n rows cols in let S := stabs (rotplanar_code rows cols) in
  let lx := rp_lxop rows cols in let lz := rp_lzop rows cols in
  [lpart (n + n) lx lz false false; lpart (n + n) lx lz true false; lpart (n + n) lx lz true true; lpart (n + n) lx lz false true]
    = [zeros (n + n); lx; xorv lx lz; lz] /\
  forall e a b, length e = n + n -> normalizer S e ->
    (in_spanP (n + n) S (xorv e (lpart (n + n) lx lz a b)) <-> a = bsp e lz /\ b = bsp e lx).
Proof.
  intros rows cols Hr Hc. cbv zeta. pose proof (rotplanar_k1_certificate rows cols Hr Hc) as C. split.
  - apply lpart_list; [exact (k1_lx_len _ _ _ _ C)|exact (k1_lz_len _ _ _ _ C)].
  - intros e a b. now apply (k1_normalizer_coset _ _ _ _ C).
Qed.
Theorem rotplanar_four_cosets : forall rows cols, (3 <= rows)%Z -> (3 <= cols)%Z ->
  four_cosets_premises (rp_n rows cols) (stabs (rotplanar_code rows cols)) (rp_lxop rows cols) (rp_lzop rows cols) /\
  four_cosets_conclusion (rp_n rows cols) (stabs (rotplanar_code rows cols)) (rp_lxop rows cols) (rp_lzop rows cols).
Proof.
  intros rows cols Hr Hc. split; [now apply rotplanar_four_cosets_premises|].
  exact (k1_four_cosets _ _ _ _ (rotplanar_k1_certificate rows cols Hr Hc)).
Qed.
Theorem rotplanar_four_cosets_label : forall rows cols, (3 <= rows)%Z -> (3 <= cols)%Z ->
  let n := rp_n rows cols in let S := stabs (rotplanar_code rows cols) in
  let lx := rp_lxop rows cols in let lz := rp_lzop rows cols in
  forall f, length f = n + n ->
  [cand (n + n) lx lz f false false; cand (n + n) lx lz f true false; cand (n + n) lx lz f true true; cand (n + n) lx lz f false true]
    = [f; xorv f lx; xorv (xorv f lx) lz; xorv f lz] /\
  (forall a b g, In g S -> bsp (cand (n + n) lx lz f a b) g = bsp f g) /\
  (forall a b a' b', in_spanP (n + n) S (xorv (cand (n + n) lx lz f a b) (cand (n + n) lx lz f a' b')) -> a = a' /\ b = b') /\
  (forall e a b, length e = n + n -> (forall g, In g S -> bsp e g = bsp f g) ->
     (in_spanP (n + n) S (xorv e (cand (n + n) lx lz f a b))
      <-> a = xorb (bsp lz e) (bsp lz f) /\ b = xorb (bsp lx e) (bsp lx f))).
Proof.
  intros rows cols Hr Hc. cbv zeta. pose proof (rotplanar_k1_certificate rows cols Hr Hc) as C. intros f Lf.
  split; [|split; [|split]].
  - apply cand_list; [exact (k1_lx_len _ _ _ _ C)|exact (k1_lz_len _ _ _ _ C)|exact Lf].
  - intros a b g Hg. now apply (k1_four_cosets_syndrome _ _ _ _ C).
  - intros a b a' b'. now apply (k1_four_cosets_inequivalent _ _ _ _ C).
  - intros e a b Le Hs. now apply (k1_four_cosets_label _ _ _ _ C).
Qed.
Theorem rotplanar_four_cosets_c10 : forall rows cols, (3 <= rows)%Z -> (3 <= cols)%Z ->
  let n := rp_n rows cols in let S := stabs (rotplanar_code rows cols) in
  forall f e, length f = n + n -> length e = n + n -> (forall g, In g S -> bsp e g = bsp f g) ->
  indep (n + n) S /\
  exists! c, In c [f; xorv f (rp_lxop rows cols); xorv (xorv f (rp_lxop rows cols)) (rp_lzop rows cols); xorv f (rp_lzop rows cols)]
             /\ In (xorv e c) (span_list (n + n) S).
Proof. intros rows cols Hr Hc. cbv zeta. exact (k1_four_cosets_c10 _ _ _ _ (rotplanar_k1_certificate rows cols Hr Hc)). Qed.
Theorem rotplanar_four_cosets_prob : forall rows cols, (3 <= rows)%Z -> (3 <= cols)%Z ->
  let n := rp_n rows cols in let S := stabs (rotplanar_code rows cols) in
  let lx := rp_lxop rows cols in let lz := rp_lzop rows cols in
  forall (K : cring) (d : dist K) f, length f = n + n ->
  (forall L, NoDup L -> (forall e, In e L <-> length e = n + n /\ forall g, In g S -> bsp e g = bsp f g) ->
     sum_list K (map (prob K d n) L)
     = radd K (radd K (radd K (coset_prob K d n S f) (coset_prob K d n S (xorv f lx)))
                      (coset_prob K d n S (xorv (xorv f lx) lz))) (coset_prob K d n S (xorv f lz))) /\
  sum_list K (map (prob K d n) (syndrome_class (n + n) S f))
     = radd K (radd K (radd K (coset_prob K d n S f) (coset_prob K d n S (xorv f lx)))
                      (coset_prob K d n S (xorv (xorv f lx) lz))) (coset_prob K d n S (xorv f lz)).
Proof.
  intros rows cols Hr Hc. cbv zeta. pose proof (rotplanar_k1_certificate rows cols Hr Hc) as C. intros K d f Lf. split.
  - intros L. now apply (k1_four_cosets_prob _ _ _ _ C).
  - now apply (k1_four_cosets_prob_enum _ _ _ _ C).
Qed.

(* ================================================================== *)
(** * 8. k logical qubits: 4^k cosets (sixteen for the toric codes)     *)
(* ================================================================== *)
Lemma csum_app : forall a1 v1 a2 v2, length a1 = length v1 ->
  csum (a1 ++ a2) (v1 ++ v2) = xorb (csum a1 v1) (csum a2 v2).
Proof.
  induction a1 as [|c a1 IH]; intros [|v v1] a2 v2 L; cbn in L; try discriminate; cbn [app csum].
  - now rewrite xorb_false_l.
  - rewrite IH by lia. now rewrite xorb_assoc.
Qed.
Lemma map_false_zeros {A} (f : A -> bool) l : (forall a, In a l -> f a = false) -> map f l = zeros (length l).
Proof.
  induction l as [|a l IH]; intros H; cbn; [reflexivity|]. rewrite (H a) by (cbn; auto).
  unfold zeros in IH. rewrite IH; auto. intros b Hb. apply H. cbn; auto.
Qed.
Lemma xorv_map2 {A} (f g : A -> bool) l : xorv (map f l) (map g l) = map (fun a => xorb (f a) (g a)) l.
Proof. induction l as [|a l IH]; cbn; [reflexivity|]. now rewrite IH. Qed.
Lemma xorv_eq_zeros a b : length a = length b -> xorv a b = zeros (length a) -> b = a.
Proof. intros L E. rewrite <- (xorv_cancel_l a b L), E. apply xorv_zeros_r. Qed.
Lemma firstn_skipn_app {A} (xa za : list A) : firstn (length xa) (xa ++ za) = xa /\ skipn (length xa) (xa ++ za) = za.
Proof.
  split.
  - rewrite firstn_app, Nat.sub_diag, firstn_all. cbn. apply app_nil_r.
  - rewrite skipn_app, Nat.sub_diag, skipn_all. reflexivity.
Qed.

Section KCosets.
Variable n : nat.
Local Notation N := (n + n).
Variables (gens lxs lzs : list bsf).
Hypothesis gens_len : rowlen N gens.
Hypothesis lxs_len : rowlen N lxs.
Hypothesis lzs_len : rowlen N lzs.
Hypothesis same_k : length lzs = length lxs.
Hypothesis logs_comm : forall l g, In l (lxs ++ lzs) -> In g gens -> bsp l g = false.
Hypothesis canon : canonical lxs lzs.
(* the centralizer lemma *)
Hypothesis centralizer : forall t, length t = N -> (forall g, In g gens -> bsp t g = false) ->
  (forall l, In l (lxs ++ lzs) -> bsp t l = false) -> in_spanP N gens t.
Local Notation k := (length lxs).
Local Notation LOGS := (lxs ++ lzs).
Let Ev : Nat.even N = true := even_double n.

(* X^xa Z^za: the product of the logical X_i with xa_i = 1 and the logical Z_i with za_i = 1 *)
Definition lpartk (xa za : list bool) : bsf := lincomb N (xa ++ za) LOGS.
Definition candk (f : bsf) (xa za : list bool) : bsf := xorv f (lpartk xa za).
(* the label of an operator: its commutators with the logical Z's (= exponents of the X's) and X's *)
Definition zlab (e : bsf) : list bool := map (fun z => bsp z e) lzs.
Definition xlab (e : bsf) : list bool := map (fun x => bsp x e) lxs.

Lemma logs_len : rowlen N LOGS.
Proof. apply Forall_app. split; assumption. Qed.
Lemma lpartk_len xa za : length (lpartk xa za) = N.
Proof. apply lincomb_length, logs_len. Qed.
Lemma candk_len f xa za : length f = N -> length (candk f xa za) = N.
Proof. intros Lf. unfold candk. rewrite xorv_length; rewrite ?lpartk_len; auto. Qed.
Lemma zlab_len e : length (zlab e) = k.
Proof. unfold zlab. now rewrite map_length. Qed.
Lemma xlab_len e : length (xlab e) = k.
Proof. unfold xlab. now rewrite map_length. Qed.
Lemma lx_nth_len j : j < k -> length (nth j lxs []) = N.
Proof. intros Hj. apply (proj1 (Forall_forall _ _) lxs_len). now apply nth_In. Qed.
Lemma lz_nth_len j : j < k -> length (nth j lzs []) = N.
Proof. intros Hj. apply (proj1 (Forall_forall _ _) lzs_len). apply nth_In. lia. Qed.

Lemma bsp_log_lpartk l xa za : length l = N -> length xa = k ->
  bsp l (lpartk xa za) = xorb (csum xa (map (fun x => bsp x l) lxs)) (csum za (map (fun z => bsp z l) lzs)).
Proof.
  intros Ll Lxa. rewrite bsp_sym by (rewrite ?lpartk_len; auto; congruence).
  unfold lpartk. rewrite (bsp_lincomb_l N Ev) by (auto using logs_len).
  rewrite map_app. apply csum_app. now rewrite map_length.
Qed.
Lemma bsp_z_lpartk j xa za : j < k -> length xa = k -> length za = k ->
  bsp (nth j lzs []) (lpartk xa za) = nth j xa false.
Proof.
  intros Hj Lxa Lza. rewrite bsp_log_lpartk by (auto using lz_nth_len).
  rewrite (csum_unit xa j).
  - rewrite csum_all_false; [apply xorb_false_r|]. intros v Hv. apply in_map_iff in Hv. destruct Hv as (z & <- & Hz).
    apply (In_nth _ _ []) in Hz. destruct Hz as (s & Hs & <-). apply (canon s j); lia.
  - now rewrite map_length.
  - intros s Hs. rewrite (nth_map_in _ _ _ _ []) by lia. rewrite Nat.eqb_sym. apply (canon s j); lia.
Qed.
Lemma bsp_x_lpartk j xa za : j < k -> length xa = k -> length za = k ->
  bsp (nth j lxs []) (lpartk xa za) = nth j za false.
Proof.
  intros Hj Lxa Lza. rewrite bsp_log_lpartk by (auto using lx_nth_len).
  rewrite (csum_unit za j).
  - rewrite csum_all_false; [apply xorb_false_l|]. intros v Hv. apply in_map_iff in Hv. destruct Hv as (x & <- & Hx).
    apply (In_nth _ _ []) in Hx. destruct Hx as (s & Hs & <-). apply (canon s j); lia.
  - rewrite map_length. lia.
  - intros s Hs. rewrite (nth_map_in _ _ _ _ []) by lia. rewrite Nat.eqb_sym. apply (canon s j); lia.
Qed.
Lemma zlab_lpartk xa za : length xa = k -> length za = k -> zlab (lpartk xa za) = xa.
Proof.
  intros Lxa Lza. apply (nth_ext _ _ false false); [rewrite zlab_len; lia|].
  intros j Hj. rewrite zlab_len in Hj. unfold zlab. rewrite (nth_map_in _ _ _ _ []) by lia. now apply bsp_z_lpartk.
Qed.
Lemma xlab_lpartk xa za : length xa = k -> length za = k -> xlab (lpartk xa za) = za.
Proof.
  intros Lxa Lza. apply (nth_ext _ _ false false); [rewrite xlab_len; lia|].
  intros j Hj. rewrite xlab_len in Hj. unfold xlab. rewrite (nth_map_in _ _ _ _ []) by lia. now apply bsp_x_lpartk.
Qed.
Lemma zlab_xorv u v : length u = N -> length v = N -> zlab (xorv u v) = xorv (zlab u) (zlab v).
Proof. intros Lu Lv. unfold zlab. rewrite xorv_map2. apply map_ext. intros z. apply bsp_linear_r. congruence. Qed.
Lemma xlab_xorv u v : length u = N -> length v = N -> xlab (xorv u v) = xorv (xlab u) (xlab v).
Proof. intros Lu Lv. unfold xlab. rewrite xorv_map2. apply map_ext. intros z. apply bsp_linear_r. congruence. Qed.
Lemma lpartk_comm xa za g : In g gens -> bsp (lpartk xa za) g = false.
Proof.
  intros Hg. pose proof (proj1 (Forall_forall _ _) gens_len g Hg) as Lg.
  unfold lpartk. rewrite (bsp_lincomb_l N Ev) by (auto using logs_len). apply csum_all_false.
  intros v Hv. apply in_map_iff in Hv. destruct Hv as (l & <- & Hl). now apply logs_comm.
Qed.
Lemma log_in_span_zero l t : In l LOGS -> in_spanP N gens t -> bsp l t = false.
Proof. intros Hl Hs. apply (bsp_span_r N gens gens_len l t); [intros g Hg; now apply logs_comm|exact Hs]. Qed.

(* a normalizer element lies in the coset X^xa Z^za S  iff  (xa, za) is its label: exactly one of the 4^k cosets *)
Theorem knormalizer_coset_iff e xa za : length e = N -> (forall g, In g gens -> bsp e g = false) ->
  length xa = k -> length za = k ->
  (in_spanP N gens (xorv e (lpartk xa za)) <-> xa = zlab e /\ za = xlab e).
Proof.
  intros Le He Lxa Lza. pose proof (lpartk_len xa za) as Ll. split.
  - intros Hs. split.
    + apply xorv_eq_zeros; [rewrite zlab_len; lia|]. rewrite <- (zlab_lpartk xa za Lxa Lza) at 1.
      rewrite <- zlab_xorv by auto. rewrite zlab_len, <- same_k. apply map_false_zeros.
      intros z Hz. apply log_in_span_zero; [apply in_or_app; auto|exact Hs].
    + apply xorv_eq_zeros; [rewrite xlab_len; lia|]. rewrite <- (xlab_lpartk xa za Lxa Lza) at 1.
      rewrite <- xlab_xorv by auto. rewrite xlab_len. apply map_false_zeros.
      intros x Hx. apply log_in_span_zero; [apply in_or_app; auto|exact Hs].
  - intros [-> ->]. clear Lxa Lza Ll.
    pose proof (lpartk_len (zlab e) (xlab e)) as Ll.
    assert (Lt : length (xorv e (lpartk (zlab e) (xlab e))) = N) by (rewrite xorv_length; congruence).
    apply centralizer; [exact Lt| |].
    + intros g Hg. rewrite bsp_linear_l by congruence. rewrite (He g Hg), lpartk_comm by exact Hg. reflexivity.
    + intros l Hl. pose proof (proj1 (Forall_forall _ _) logs_len l Hl) as Lg.
      rewrite bsp_sym by (rewrite ?Lt; auto; congruence). rewrite bsp_linear_r by congruence.
      apply in_app_or in Hl. destruct Hl as [Hl|Hl]; apply (In_nth _ _ []) in Hl; destruct Hl as (j & Hj & <-).
      * rewrite bsp_x_lpartk by (rewrite ?zlab_len, ?xlab_len; auto).
        unfold xlab. rewrite (nth_map_in _ _ _ _ []) by lia. apply xorb_nilpotent.
      * rewrite bsp_z_lpartk by (rewrite ?zlab_len, ?xlab_len; auto; lia).
        unfold zlab. rewrite (nth_map_in _ _ _ _ []) by lia. apply xorb_nilpotent.
Qed.

(* the 4^k candidates f X^xa Z^za have the syndrome of f *)
Theorem kcosets_syndrome f xa za g : length f = N -> In g gens -> bsp (candk f xa za) g = bsp f g.
Proof.
  intros Lf Hg. unfold candk. rewrite bsp_linear_l by (rewrite lpartk_len; exact Lf).
  rewrite lpartk_comm by exact Hg. apply xorb_false_r.
Qed.
(* e with the syndrome of f is equivalent to the candidate with label (label e + label f), and to no other *)
Theorem kcosets_label e f xa za : length e = N -> length f = N -> (forall g, In g gens -> bsp e g = bsp f g) ->
  length xa = k -> length za = k ->
  (in_spanP N gens (xorv e (candk f xa za)) <-> xa = xorv (zlab e) (zlab f) /\ za = xorv (xlab e) (xlab f)).
Proof.
  intros Le Lf Hs Lxa Lza. unfold candk. rewrite <- xorv_assoc.
  rewrite <- zlab_xorv, <- xlab_xorv by auto. apply knormalizer_coset_iff; auto.
  - rewrite xorv_length; congruence.
  - intros g Hg. rewrite bsp_linear_l by congruence. rewrite (Hs g Hg). apply xorb_nilpotent.
Qed.
Theorem kcosets_exactly_one e f : length e = N -> length f = N -> (forall g, In g gens -> bsp e g = bsp f g) ->
  exists xa za, length xa = k /\ length za = k /\ in_spanP N gens (xorv e (candk f xa za))
    /\ forall xa' za', length xa' = k -> length za' = k -> in_spanP N gens (xorv e (candk f xa' za')) -> xa' = xa /\ za' = za.
Proof.
  intros Le Lf Hs. exists (xorv (zlab e) (zlab f)), (xorv (xlab e) (xlab f)).
  assert (L1 : length (xorv (zlab e) (zlab f)) = k) by (rewrite xorv_length; rewrite !zlab_len; auto).
  assert (L2 : length (xorv (xlab e) (xlab f)) = k) by (rewrite xorv_length; rewrite !xlab_len; auto).
  split; [exact L1|]. split; [exact L2|]. split.
  - apply (proj2 (kcosets_label e f _ _ Le Lf Hs L1 L2)). auto.
  - intros xa' za' L1' L2' H. exact (proj1 (kcosets_label e f xa' za' Le Lf Hs L1' L2') H).
Qed.
(* the candidates are pairwise inequivalent *)
Theorem kcosets_inequivalent f xa za xa' za' : length f = N ->
  length xa = k -> length za = k -> length xa' = k -> length za' = k ->
  in_spanP N gens (xorv (candk f xa za) (candk f xa' za')) -> xa = xa' /\ za = za'.
Proof.
  intros Lf L1 L2 L1' L2' H.
  apply (kcosets_label (candk f xa za) f xa' za') in H; auto using candk_len.
  - destruct H as [-> ->]. unfold candk. rewrite zlab_xorv, xlab_xorv by (auto using lpartk_len).
    rewrite zlab_lpartk, xlab_lpartk by assumption.
    rewrite !xorv_cancel_r by (rewrite ?zlab_len, ?xlab_len; auto). auto.
  - intros g Hg. now apply kcosets_syndrome.
Qed.

(* the 4^k coset probabilities add up to the probability of the syndrome class *)
Hypothesis gens_ind : independent N gens.
Hypothesis gens_comm : forall g h, In g gens -> In h gens -> bsp g h = false.
Theorem kcosets_total_prob (K : cring) (d : dist K) f L : length f = N -> NoDup L ->
  (forall e, In e L <-> length e = N /\ forall g, In g gens -> bsp e g = bsp f g) ->
  sum_list K (map (prob K d n) L)
  = sum_list K (map (fun ab => coset_prob K d n gens (candk f (firstn k ab) (skipn k ab))) (allv (k + k))).
Proof.
  intros Lf HL Hmem.
  assert (Lab : forall ab, In ab (allv (k + k)) -> length (firstn k ab) = k /\ length (skipn k ab) = k).
  { intros ab Hab. apply allv_spec in Hab. rewrite firstn_length, skipn_length. lia. }
  apply (partition_total K d n gens gens_len (indep_of_independent_rows N gens gens_len gens_ind)
           (allv (k + k)) (fun ab => candk f (firstn k ab) (skipn k ab)) L (allv_nodup (k + k))).
  - intros ab _. now apply candk_len.
  - intros x y Hx Hy Hs. apply span_list_iff in Hs. destruct (Lab x Hx), (Lab y Hy).
    apply kcosets_inequivalent in Hs; auto. destruct Hs as [E1 E2].
    rewrite <- (firstn_skipn k x), <- (firstn_skipn k y). now rewrite E1, E2.
  - exact HL.
  - intros e. rewrite Hmem. split.
    + intros [Le Hs]. split; [exact Le|].
      destruct (kcosets_exactly_one e f Le Lf Hs) as (xa & za & L1 & L2 & Hab & _).
      exists (xa ++ za). split; [apply allv_spec; rewrite app_length; lia|].
      destruct (firstn_skipn_app xa za) as [E1 E2]. rewrite L1 in E1, E2. rewrite E1, E2. now apply span_list_iff.
    + intros [Le (ab & Hab & Hs)]. split; [exact Le|]. apply span_list_iff in Hs. destruct (Lab ab Hab) as [L1 L2].
      set (c := candk f (firstn k ab) (skipn k ab)) in *.
      assert (Lc : length c = N) by now apply candk_len.
      intros g Hg. rewrite <- (kcosets_syndrome f (firstn k ab) (skipn k ab) g Lf Hg). fold c.
      pose proof (proj1 (Forall_forall _ _) gens_len g Hg) as Lg.
      pose proof (bsp_span_r N gens gens_len g _ (fun h Hh => gens_comm g h Hg Hh) Hs) as H0.
      rewrite bsp_linear_r in H0 by congruence.
      rewrite (bsp_sym e g), (bsp_sym c g) by (rewrite ?Lc, ?Le; auto; congruence).
      now destruct (bsp g e), (bsp g c).
Qed.
End KCosets.

(* ================================================================== *)
(** * 9. Two logical qubits: the sixteen cosets                         *)
(* ================================================================== *)
(* what the lattice files deliver for a code with logical X's [lxs] and logical Z's [lzs] *)
Definition kk_certificate (n : nat) (gens lxs lzs : list bsf) : Prop :=
  rowlen (n + n) gens /\ rowlen (n + n) lxs /\ rowlen (n + n) lzs /\ length lzs = length lxs /\
  (forall l g, In l (lxs ++ lzs) -> In g gens -> bsp l g = false) /\ canonical lxs lzs /\
  (forall t, length t = n + n -> (forall g, In g gens -> bsp t g = false) ->
     (forall l, In l (lxs ++ lzs) -> bsp t l = false) -> in_spanP (n + n) gens t).

(* X1^a1 X2^a2 Z1^b1 Z2^b2 and the sixteen candidates *)
Definition lpart2 (N : nat) (x1 x2 z1 z2 : bsf) (a1 a2 b1 b2 : bool) : bsf :=
  lincomb N [a1; a2; b1; b2] [x1; x2; z1; z2].
Definition cand2 (N : nat) (x1 x2 z1 z2 f : bsf) (a1 a2 b1 b2 : bool) : bsf :=
  xorv f (lpart2 N x1 x2 z1 z2 a1 a2 b1 b2).

Section K2Family.
Variable n : nat.
Local Notation N := (n + n).
Variables (gens : list bsf) (x1 x2 z1 z2 : bsf).
Hypothesis cert : kk_certificate n gens [x1; x2] [z1; z2].
Local Notation lp := (lpart2 N x1 x2 z1 z2).
Local Notation cnd := (cand2 N x1 x2 z1 z2).

Lemma k2_lens : length x1 = N /\ length x2 = N /\ length z1 = N /\ length z2 = N.
Proof.
  destruct cert as (_ & HX & HZ & _).
  pose proof (Forall_inv HX) as L1. pose proof (Forall_inv (Forall_inv_tail HX)) as L2.
  pose proof (Forall_inv HZ) as L3. pose proof (Forall_inv (Forall_inv_tail HZ)) as L4. cbn beta in *. auto.
Qed.
Lemma k2_lpart_eq a1 a2 b1 b2 : lp a1 a2 b1 b2 = lpartk n [x1; x2] [z1; z2] [a1; a2] [b1; b2].
Proof. reflexivity. Qed.
Lemma k2_cand_eq f a1 a2 b1 b2 : cnd f a1 a2 b1 b2 = candk n [x1; x2] [z1; z2] f [a1; a2] [b1; b2].
Proof. reflexivity. Qed.

(* a normalizer element is in exactly one of the sixteen cosets, read off its commutators with the four logicals *)
Theorem k2_normalizer_coset e a1 a2 b1 b2 : length e = N -> normalizer gens e ->
  (in_spanP N gens (xorv e (lp a1 a2 b1 b2))
   <-> a1 = bsp e z1 /\ a2 = bsp e z2 /\ b1 = bsp e x1 /\ b2 = bsp e x2).
Proof.
  intros Le He. destruct k2_lens as (L1 & L2 & L3 & L4). destruct cert as (HG & HX & HZ & Hk & Hlg & Hcan & Hcen).
  pose proof (even_double n) as Ev.
  rewrite (bsp_sym e z1), (bsp_sym e z2), (bsp_sym e x1), (bsp_sym e x2) by (rewrite ?Le; auto; congruence).
  rewrite k2_lpart_eq.
  rewrite (knormalizer_coset_iff n gens [x1; x2] [z1; z2] HG HX HZ Hk Hlg Hcan Hcen e [a1; a2] [b1; b2] Le He eq_refl eq_refl).
  unfold zlab, xlab. cbn [map]. split.
  - intros [E1 E2]. injection E1 as -> ->. injection E2 as -> ->. auto.
  - intros (-> & -> & -> & ->). auto.
Qed.
Theorem k2_sixteen_syndrome f a1 a2 b1 b2 g : length f = N -> In g gens -> bsp (cnd f a1 a2 b1 b2) g = bsp f g.
Proof.
  intros Lf Hg. destruct cert as (HG & HX & HZ & Hk & Hlg & Hcan & Hcen). rewrite k2_cand_eq.
  now apply (kcosets_syndrome n gens [x1; x2] [z1; z2] HG HX HZ Hlg).
Qed.
(* every e with the syndrome of f is equivalent to exactly one of the sixteen candidates f X1^a1 X2^a2 Z1^b1 Z2^b2 *)
Theorem k2_sixteen_label f e a1 a2 b1 b2 : length f = N -> length e = N -> (forall g, In g gens -> bsp e g = bsp f g) ->
  (in_spanP N gens (xorv e (cnd f a1 a2 b1 b2))
   <-> a1 = xorb (bsp z1 e) (bsp z1 f) /\ a2 = xorb (bsp z2 e) (bsp z2 f)
       /\ b1 = xorb (bsp x1 e) (bsp x1 f) /\ b2 = xorb (bsp x2 e) (bsp x2 f)).
Proof.
  intros Lf Le Hs. destruct cert as (HG & HX & HZ & Hk & Hlg & Hcan & Hcen). rewrite k2_cand_eq.
  rewrite (kcosets_label n gens [x1; x2] [z1; z2] HG HX HZ Hk Hlg Hcan Hcen e f [a1; a2] [b1; b2] Le Lf Hs eq_refl eq_refl).
  unfold zlab, xlab. cbn [map xorv]. split.
  - intros [E1 E2]. injection E1 as -> ->. injection E2 as -> ->. auto.
  - intros (-> & -> & -> & ->). auto.
Qed.
Theorem k2_sixteen_cosets f e : length f = N -> length e = N -> (forall g, In g gens -> bsp e g = bsp f g) ->
  exists a1 a2 b1 b2, in_spanP N gens (xorv e (cnd f a1 a2 b1 b2))
    /\ forall a1' a2' b1' b2', in_spanP N gens (xorv e (cnd f a1' a2' b1' b2')) ->
         a1' = a1 /\ a2' = a2 /\ b1' = b1 /\ b2' = b2.
Proof.
  intros Lf Le Hs.
  exists (xorb (bsp z1 e) (bsp z1 f)), (xorb (bsp z2 e) (bsp z2 f)), (xorb (bsp x1 e) (bsp x1 f)), (xorb (bsp x2 e) (bsp x2 f)).
  split.
  - apply (proj2 (k2_sixteen_label f e _ _ _ _ Lf Le Hs)). auto.
  - intros a1' a2' b1' b2' H. exact (proj1 (k2_sixteen_label f e _ _ _ _ Lf Le Hs) H).
Qed.
Theorem k2_sixteen_inequivalent f a1 a2 b1 b2 a1' a2' b1' b2' : length f = N ->
  in_spanP N gens (xorv (cnd f a1 a2 b1 b2) (cnd f a1' a2' b1' b2')) -> a1 = a1' /\ a2 = a2' /\ b1 = b1' /\ b2 = b2'.
Proof.
  intros Lf H. destruct cert as (HG & HX & HZ & Hk & Hlg & Hcan & Hcen). rewrite !k2_cand_eq in H.
  apply (kcosets_inequivalent n gens [x1; x2] [z1; z2] HG HX HZ Hk Hlg Hcan Hcen) in H; auto.
  destruct H as [E1 E2]. injection E1 as -> ->. injection E2 as -> ->. auto.
Qed.
(* the sixteen coset probabilities add up to the probability of the syndrome class *)
Theorem k2_sixteen_prob (K : cring) (d : dist K) f L : independent N gens ->
  (forall g h, In g gens -> In h gens -> bsp g h = false) -> length f = N -> NoDup L ->
  (forall e, In e L <-> length e = N /\ forall g, In g gens -> bsp e g = bsp f g) ->
  sum_list K (map (prob K d n) L)
  = sum_list K (map (fun t => coset_prob K d n gens (cnd f (nth 0 t false) (nth 1 t false) (nth 2 t false) (nth 3 t false)))
                    (allv 4)).
Proof.
  intros HI HC Lf HL Hmem. destruct cert as (HG & HX & HZ & Hk & Hlg & Hcan & Hcen).
  rewrite (kcosets_total_prob n gens [x1; x2] [z1; z2] HG HX HZ Hk Hlg Hcan Hcen HI HC K d f L Lf HL Hmem).
  reflexivity.
Qed.
End K2Family.

(* ---- dependent generator lists: an independent sublist with the same span ---- *)
Section ReducedGens.
Variable n : nat.
Local Notation N := (n + n).
Variables (gens rgens lxs lzs : list bsf).
Hypothesis rgens_len : rowlen N rgens.
Hypothesis rgens_incl : incl rgens gens.
Hypothesis gens_in_rspan : forall g, In g gens -> in_spanP N rgens g.

Lemma normal_reduced_iff t : (forall g, In g rgens -> bsp t g = false) <-> (forall g, In g gens -> bsp t g = false).
Proof.
  split.
  - intros H g Hg. apply (bsp_span_r N rgens rgens_len t g H). now apply gens_in_rspan.
  - intros H g Hg. apply H. now apply rgens_incl.
Qed.
Lemma syndrome_reduced_iff e f : length e = N -> length f = N ->
  ((forall g, In g rgens -> bsp e g = bsp f g) <-> (forall g, In g gens -> bsp e g = bsp f g)).
Proof.
  intros Le Lf.
  assert (E : forall G : list bsf, (forall g, In g G -> bsp e g = bsp f g) <-> (forall g, In g G -> bsp (xorv e f) g = false)).
  { intros G. split; intros H g Hg; specialize (H g Hg); rewrite bsp_linear_l in * by congruence.
    - rewrite H. apply xorb_nilpotent.
    - now destruct (bsp e g), (bsp f g). }
  rewrite (E rgens), (E gens). apply normal_reduced_iff.
Qed.
Theorem kk_certificate_reduced : kk_certificate n gens lxs lzs ->
  (forall t, length t = N -> (forall g, In g gens -> bsp t g = false) ->
     (forall l, In l (lxs ++ lzs) -> bsp t l = false) -> in_spanP N rgens t) ->
  kk_certificate n rgens lxs lzs.
Proof.
  intros (HG & HX & HZ & Hk & Hlg & Hcan & Hcen) Hr.
  split; [exact rgens_len|]. split; [exact HX|]. split; [exact HZ|]. split; [exact Hk|]. split; [|split; [exact Hcan|]].
  - intros l g Hl Hg. apply Hlg; auto.
  - intros t Lt Ht Hl. apply Hr; auto. now apply normal_reduced_iff.
Qed.
End ReducedGens.

(* symmetric form of "stabilizers commute with logicals" *)
Lemma logs_comm_of_valid (n : nat) (c : code) : rowlen (n + n) (stabs c) -> rowlen (n + n) (logicals c) ->
  (forall s l, In s (stabs c) -> In l (logicals c) -> bsp s l = false) ->
  forall l g, In l (logicals c) -> In g (stabs c) -> bsp l g = false.
Proof.
  intros HS HL H l g Hl Hg. pose proof (proj1 (Forall_forall _ _) HS g Hg) as Lg.
  pose proof (proj1 (Forall_forall _ _) HL l Hl) as Ll.
  rewrite bsp_sym by (rewrite ?Ll; auto using even_double; congruence). now apply H.
Qed.

(* ================================================================== *)
(** * 10. The toric code, every size                                    *)
(* ================================================================== *)
Section ToricSixteen.
Variables rows cols : Z.
Hypothesis Hr : (2 <= rows)%Z.
Hypothesis Hc : (2 <= cols)%Z.
Local Notation n := (toric_n rows cols).
Local Notation STABS := (stabs (toric_code rows cols)).
Local Notation RSTABS := (toric_reduced_stabs rows cols).
Local Notation x1 := (ToricAll.x1op rows cols).
Local Notation x2 := (ToricAll.x2op rows cols).
Local Notation z1 := (ToricAll.z1op rows cols).
Local Notation z2 := (ToricAll.z2op rows cols).

Lemma toric_logs_rowlen : rowlen (n + n) [x1; x2; z1; z2].
Proof. repeat constructor; apply tsop_length. Qed.
Theorem toric_kk_certificate : kk_certificate n STABS [x1; x2] [z1; z2].
Proof.
  pose proof (proj1 (validate_iff_canonical (toric_code rows cols) eq_refl) (toric_valid_all rows cols Hr Hc))
    as (Hss & Hsl & _).
  pose proof toric_logs_rowlen as HL.
  split; [apply ToricRankAll.tstabs_rowlen|]. split; [repeat constructor; apply tsop_length|].
  split; [repeat constructor; apply tsop_length|]. split; [reflexivity|]. split; [|split].
  - apply (logs_comm_of_valid n (toric_code rows cols)); [apply ToricRankAll.tstabs_rowlen| |exact Hsl].
    rewrite tcode_eq. exact HL.
  - now apply toric_logicals_canonical.
  - intros t Lt Ht Hl. apply toric_centralizer; auto; apply Hl; cbn; auto.
Qed.
Lemma toric_stabs_in_rspan g : In g STABS -> in_spanP (n + n) RSTABS g.
Proof.
  rewrite tcode_eq. cbn [stabs]. intros Hg. apply in_map_iff in Hg. destruct Hg as (q & <- & Hq).
  now apply toric_stab_in_reduced_span.
Qed.
Theorem toric_reduced_kk_certificate : kk_certificate n RSTABS [x1; x2] [z1; z2].
Proof.
  apply (kk_certificate_reduced n STABS RSTABS);
    [apply ToricRankAll.trstabs_rowlen|apply toric_reduced_incl|exact toric_stabs_in_rspan|exact toric_kk_certificate|].
  intros t Lt Ht Hl. apply toric_centralizer_reduced; auto; apply Hl; cbn; auto.
Qed.
Lemma toric_stabs_commute : forall g h, In g STABS -> In h STABS -> bsp g h = false.
Proof.
  exact (proj1 (proj1 (validate_iff_canonical (toric_code rows cols) eq_refl) (toric_valid_all rows cols Hr Hc))).
Qed.
End ToricSixteen.

(* every normalizer element of the toric code is in exactly one of the sixteen cosets X1^a1 X2^a2 Z1^b1 Z2^b2 S *)
Theorem toric_normalizer_coset : forall rows cols, (2 <= rows)%Z -> (2 <= cols)%Z ->
  let n := toric_n rows cols in let S := stabs (toric_code rows cols) in
  let x1 := ToricAll.x1op rows cols in let x2 := ToricAll.x2op rows cols in
  let z1 := ToricAll.z1op rows cols in let z2 := ToricAll.z2op rows cols in
  forall e a1 a2 b1 b2, length e = n + n -> normalizer S e ->
    (in_spanP (n + n) S (xorv e (lpart2 (n + n) x1 x2 z1 z2 a1 a2 b1 b2))
     <-> a1 = bsp e z1 /\ a2 = bsp e z2 /\ b1 = bsp e x1 /\ b2 = bsp e x2).
Proof.
  intros rows cols Hr Hc. cbv zeta. intros e a1 a2 b1 b2.
  exact (k2_normalizer_coset _ _ _ _ _ _ (toric_kk_certificate rows cols Hr Hc) e a1 a2 b1 b2).
Qed.
(* the sixteen candidates f X1^a1 X2^a2 Z1^b1 Z2^b2: same syndrome, pairwise inequivalent, and every e with the
   syndrome of f is equivalent to exactly one of them, labelled by the commutators of e f with the logicals *)
Theorem toric_sixteen_cosets : forall rows cols, (2 <= rows)%Z -> (2 <= cols)%Z ->
  let n := toric_n rows cols in let S := stabs (toric_code rows cols) in
  let x1 := ToricAll.x1op rows cols in let x2 := ToricAll.x2op rows cols in
  let z1 := ToricAll.z1op rows cols in let z2 := ToricAll.z2op rows cols in
  forall f, length f = n + n ->
  (forall a1 a2 b1 b2 g, In g S -> bsp (cand2 (n + n) x1 x2 z1 z2 f a1 a2 b1 b2) g = bsp f g) /\
  (forall a1 a2 b1 b2 a1' a2' b1' b2',
     in_spanP (n + n) S (xorv (cand2 (n + n) x1 x2 z1 z2 f a1 a2 b1 b2) (cand2 (n + n) x1 x2 z1 z2 f a1' a2' b1' b2')) ->
     a1 = a1' /\ a2 = a2' /\ b1 = b1' /\ b2 = b2') /\
  (forall e, length e = n + n -> (forall g, In g S -> bsp e g = bsp f g) ->
     (exists a1 a2 b1 b2, in_spanP (n + n) S (xorv e (cand2 (n + n) x1 x2 z1 z2 f a1 a2 b1 b2))
        /\ forall a1' a2' b1' b2', in_spanP (n + n) S (xorv e (cand2 (n + n) x1 x2 z1 z2 f a1' a2' b1' b2')) ->
             a1' = a1 /\ a2' = a2 /\ b1' = b1 /\ b2' = b2) /\
     (forall a1 a2 b1 b2, in_spanP (n + n) S (xorv e (cand2 (n + n) x1 x2 z1 z2 f a1 a2 b1 b2))
        <-> a1 = xorb (bsp z1 e) (bsp z1 f) /\ a2 = xorb (bsp z2 e) (bsp z2 f)
            /\ b1 = xorb (bsp x1 e) (bsp x1 f) /\ b2 = xorb (bsp x2 e) (bsp x2 f))).
Proof.
  intros rows cols Hr Hc. cbv zeta. pose proof (toric_kk_certificate rows cols Hr Hc) as C. intros f Lf.
  split; [|split].
  - intros a1 a2 b1 b2 g Hg. now apply (k2_sixteen_syndrome _ _ _ _ _ _ C).
  - intros a1 a2 b1 b2 a1' a2' b1' b2'. now apply (k2_sixteen_inequivalent _ _ _ _ _ _ C).
  - intros e Le Hs. split.
    + now apply (k2_sixteen_cosets _ _ _ _ _ _ C).
    + intros a1 a2 b1 b2. now apply (k2_sixteen_label _ _ _ _ _ _ C).
Qed.
(* the sixteen coset probabilities (cosets of the group generated by the n - 2 independent generators, which is the
   whole stabilizer group) add up to the probability of the syndrome class *)
Theorem toric_sixteen_prob : forall rows cols, (2 <= rows)%Z -> (2 <= cols)%Z ->
  let n := toric_n rows cols in let S := stabs (toric_code rows cols) in let R := toric_reduced_stabs rows cols in
  let x1 := ToricAll.x1op rows cols in let x2 := ToricAll.x2op rows cols in
  let z1 := ToricAll.z1op rows cols in let z2 := ToricAll.z2op rows cols in
  independent (n + n) R /\ incl R S /\ (forall g, In g S -> in_spanP (n + n) R g) /\
  forall (K : cring) (d : dist K) f L, length f = n + n -> NoDup L ->
    (forall e, In e L <-> length e = n + n /\ forall g, In g S -> bsp e g = bsp f g) ->
    sum_list K (map (prob K d n) L)
    = sum_list K (map (fun t => coset_prob K d n R
                                  (cand2 (n + n) x1 x2 z1 z2 f (nth 0 t false) (nth 1 t false) (nth 2 t false) (nth 3 t false)))
                      (allv 4)).
Proof.
  intros rows cols Hr Hc. cbv zeta.
  split; [now apply toric_reduced_independent|]. split; [apply toric_reduced_incl|].
  split; [now apply toric_stabs_in_rspan|].
  intros K d f L Lf HL Hmem.
  apply (k2_sixteen_prob _ _ _ _ _ _ (toric_reduced_kk_certificate rows cols Hr Hc)); auto.
  - now apply toric_reduced_independent.
  - intros g h Hg Hh. apply (toric_stabs_commute rows cols Hr Hc); now apply toric_reduced_incl.
  - intros e. rewrite Hmem. split; intros [Le H]; (split; [exact Le|]).
    + apply (syndrome_reduced_iff _ _ _ (ToricRankAll.trstabs_rowlen rows cols) (toric_reduced_incl rows cols)
               (toric_stabs_in_rspan rows cols Hr Hc) e f Le Lf). exact H.
    + apply (syndrome_reduced_iff _ _ _ (ToricRankAll.trstabs_rowlen rows cols) (toric_reduced_incl rows cols)
               (toric_stabs_in_rspan rows cols Hr Hc) e f Le Lf). exact H.
Qed.

(* ================================================================== *)
(** * 11. The rotated toric code, every size                            *)
(* ================================================================== *)
Section RotToricSixteen.
Variables rows cols : Z.
Hypothesis Hr : (2 <= rows)%Z.
Hypothesis Er : (rows mod 2 = 0)%Z.
Hypothesis Hc : (2 <= cols)%Z.
Hypothesis Ec : (cols mod 2 = 0)%Z.
Local Notation n := (rt_n rows cols).
Local Notation STABS := (stabs (rottoric_code rows cols)).
Local Notation RSTABS := (rottoric_reduced_stabs rows cols).
Local Notation x1 := (rt_x1 rows cols).
Local Notation x2 := (rt_x2 rows cols).
Local Notation z1 := (rt_z1 rows cols).
Local Notation z2 := (rt_z2 rows cols).

Lemma rottoric_logs_rowlen : rowlen (n + n) [x1; x2; z1; z2].
Proof. repeat constructor; apply RotToricRankAll.sop_length. Qed.
Theorem rottoric_kk_certificate : kk_certificate n STABS [x1; x2] [z1; z2].
Proof.
  pose proof (rottoric_valid_all_conditions rows cols Hr Er Hc Ec) as (Hss & Hsl & _). cbv zeta in Hss, Hsl.
  pose proof rottoric_logs_rowlen as HL.
  split; [now apply rstabs_rowlen|]. split; [repeat constructor; apply RotToricRankAll.sop_length|].
  split; [repeat constructor; apply RotToricRankAll.sop_length|]. split; [reflexivity|]. split; [|split].
  - assert (EL : logicals (rottoric_code rows cols) = [x1; x2; z1; z2])
      by (rewrite (rt_code_eq rows cols Hr Hc); reflexivity).
    intros l g Hl Hg. apply (logs_comm_of_valid n (rottoric_code rows cols));
      [now apply rstabs_rowlen|rewrite EL; exact HL|exact Hsl|rewrite EL; exact Hl|exact Hg].
  - now apply rottoric_logicals_canonical_all.
  - intros t Lt Ht Hl. apply rottoric_centralizer; auto; apply Hl; cbn; auto.
Qed.
Lemma rottoric_stabs_in_rspan g : In g STABS -> in_spanP (n + n) RSTABS g.
Proof.
  rewrite (rt_code_eq rows cols Hr Hc). cbn [stabs]. intros Hg. apply in_map_iff in Hg. destruct Hg as (q & <- & Hq).
  now apply rottoric_stab_in_reduced_span.
Qed.
Theorem rottoric_reduced_kk_certificate : kk_certificate n RSTABS [x1; x2] [z1; z2].
Proof.
  apply (kk_certificate_reduced n STABS RSTABS);
    [apply rrstabs_rowlen|now apply rreduced_incl|exact rottoric_stabs_in_rspan|exact rottoric_kk_certificate|].
  intros t Lt Ht Hl. apply rottoric_centralizer_reduced; auto; apply Hl; cbn; auto.
Qed.
Lemma rottoric_stabs_commute : forall g h, In g STABS -> In h STABS -> bsp g h = false.
Proof. exact (proj1 (rottoric_valid_all_conditions rows cols Hr Er Hc Ec)). Qed.
End RotToricSixteen.

Theorem rottoric_normalizer_coset : forall rows cols,
  (2 <= rows)%Z -> (rows mod 2 = 0)%Z -> (2 <= cols)%Z -> (cols mod 2 = 0)%Z ->
  let n := rt_n rows cols in let S := stabs (rottoric_code rows cols) in
  let x1 := rt_x1 rows cols in let x2 := rt_x2 rows cols in let z1 := rt_z1 rows cols in let z2 := rt_z2 rows cols in
  forall e a1 a2 b1 b2, length e = n + n -> normalizer S e ->
    (in_spanP (n + n) S (xorv e (lpart2 (n + n) x1 x2 z1 z2 a1 a2 b1 b2))
     <-> a1 = bsp e z1 /\ a2 = bsp e z2 /\ b1 = bsp e x1 /\ b2 = bsp e x2).
Proof.
  intros rows cols Hr Er Hc Ec. cbv zeta. intros e a1 a2 b1 b2.
  exact (k2_normalizer_coset _ _ _ _ _ _ (rottoric_kk_certificate rows cols Hr Er Hc Ec) e a1 a2 b1 b2).
Qed.
Theorem rottoric_sixteen_cosets : forall rows cols,
  (2 <= rows)%Z -> (rows mod 2 = 0)%Z -> (2 <= cols)%Z -> (cols mod 2 = 0)%Z ->
  let n := rt_n rows cols in let S := stabs (rottoric_code rows cols) in
  let x1 := rt_x1 rows cols in let x2 := rt_x2 rows cols in let z1 := rt_z1 rows cols in let z2 := rt_z2 rows cols in
  forall f, length f = n + n ->
  (forall a1 a2 b1 b2 g, In g S -> bsp (cand2 (n + n) x1 x2 z1 z2 f a1 a2 b1 b2) g = bsp f g) /\
  (forall a1 a2 b1 b2 a1' a2' b1' b2',
     in_spanP (n + n) S (xorv (cand2 (n + n) x1 x2 z1 z2 f a1 a2 b1 b2) (cand2 (n + n) x1 x2 z1 z2 f a1' a2' b1' b2')) ->
     a1 = a1' /\ a2 = a2' /\ b1 = b1' /\ b2 = b2') /\
  (forall e, length e = n + n -> (forall g, In g S -> bsp e g = bsp f g) ->
     (exists a1 a2 b1 b2, in_spanP (n + n) S (xorv e (cand2 (n + n) x1 x2 z1 z2 f a1 a2 b1 b2))
        /\ forall a1' a2' b1' b2', in_spanP (n + n) S (xorv e (cand2 (n + n) x1 x2 z1 z2 f a1' a2' b1' b2')) ->
             a1' = a1 /\ a2' = a2 /\ b1' = b1 /\ b2' = b2) /\
     (forall a1 a2 b1 b2, in_spanP (n + n) S (xorv e (cand2 (n + n) x1 x2 z1 z2 f a1 a2 b1 b2))
        <-> a1 = xorb (bsp z1 e) (bsp z1 f) /\ a2 = xorb (bsp z2 e) (bsp z2 f)
            /\ b1 = xorb (bsp x1 e) (bsp x1 f) /\ b2 = xorb (bsp x2 e) (bsp x2 f))).
Proof.
  intros rows cols Hr Er Hc Ec. cbv zeta. pose proof (rottoric_kk_certificate rows cols Hr Er Hc Ec) as C. intros f Lf.
  split; [|split].
  - intros a1 a2 b1 b2 g Hg. now apply (k2_sixteen_syndrome _ _ _ _ _ _ C).
  - intros a1 a2 b1 b2 a1' a2' b1' b2'. now apply (k2_sixteen_inequivalent _ _ _ _ _ _ C).
  - intros e Le Hs. split.
    + now apply (k2_sixteen_cosets _ _ _ _ _ _ C).
    + intros a1 a2 b1 b2. now apply (k2_sixteen_label _ _ _ _ _ _ C).
Qed.
Theorem rottoric_sixteen_prob : forall rows cols,
  (2 <= rows)%Z -> (rows mod 2 = 0)%Z -> (2 <= cols)%Z -> (cols mod 2 = 0)%Z ->
  let n := rt_n rows cols in let S := stabs (rottoric_code rows cols) in let R := rottoric_reduced_stabs rows cols in
  let x1 := rt_x1 rows cols in let x2 := rt_x2 rows cols in let z1 := rt_z1 rows cols in let z2 := rt_z2 rows cols in
  independent (n + n) R /\ incl R S /\ (forall g, In g S -> in_spanP (n + n) R g) /\
  forall (K : cring) (d : dist K) f L, length f = n + n -> NoDup L ->
    (forall e, In e L <-> length e = n + n /\ forall g, In g S -> bsp e g = bsp f g) ->
    sum_list K (map (prob K d n) L)
    = sum_list K (map (fun t => coset_prob K d n R
                                  (cand2 (n + n) x1 x2 z1 z2 f (nth 0 t false) (nth 1 t false) (nth 2 t false) (nth 3 t false)))
                      (allv 4)).
Proof.
  intros rows cols Hr Er Hc Ec. cbv zeta.
  split; [now apply rottoric_reduced_independent|]. split; [now apply rreduced_incl|].
  split; [now apply rottoric_stabs_in_rspan|].
  intros K d f L Lf HL Hmem.
  apply (k2_sixteen_prob _ _ _ _ _ _ (rottoric_reduced_kk_certificate rows cols Hr Er Hc Ec)); auto.
  - now apply rottoric_reduced_independent.
  - intros g h Hg Hh. apply (rottoric_stabs_commute rows cols Hr Er Hc Ec); now apply rreduced_incl.
  - intros e. rewrite Hmem. split; intros [Le H]; (split; [exact Le|]).
    + apply (syndrome_reduced_iff _ _ _ (rrstabs_rowlen rows cols) (rreduced_incl rows cols Hr Hc)
               (rottoric_stabs_in_rspan rows cols Hr Er Hc Ec) e f Le Lf). exact H.
    + apply (syndrome_reduced_iff _ _ _ (rrstabs_rowlen rows cols) (rreduced_incl rows cols Hr Hc)
               (rottoric_stabs_in_rspan rows cols Hr Er Hc Ec) e f Le Lf). exact H.
Qed.

(* ================================================================== *)
(** * 12. Non-vacuity: closed instances on small lattices               *)
(* ================================================================== *)
Lemma same_syndrome_of gens e f : syndrome_of gens e = syndrome_of gens f -> forall g, In g gens -> bsp e g = bsp f g.
Proof. unfold syndrome_of. intros H g Hg. rewrite map_ext_in_iff in H. exact (H g Hg). Qed.

(* planar 2 x 2 (5 qubits): f = logical Z as the sample, e = f . (first generator) . logical X has the syndrome of f;
   the hypotheses of [planar_four_cosets] hold and e is equivalent to f X and not to f *)
Example planar_four_cosets_ex :
  let S := stabs (planar_code 2 2) in let lx := lxop 2 2 in let lz := lzop 2 2 in
  let f := lz in let e := xorv (xorv f (nth 0 S [])) lx in
  length f = 10 /\ length e = 10 /\ syndrome_of S e = syndrome_of S f /\
  in_spanP 10 S (xorv e (cand 10 lx lz f true false)) /\ ~ in_spanP 10 S (xorv e (cand 10 lx lz f false false)).
Proof.
  cbv zeta.
  set (S := stabs (planar_code 2 2)). set (lx := lxop 2 2). set (lz := lzop 2 2).
  set (e := xorv (xorv lz (nth 0 S [])) lx).
  assert (Lf : length lz = 10) by (vm_compute; reflexivity).
  assert (Le : length e = 10) by (vm_compute; reflexivity).
  assert (Hs : syndrome_of S e = syndrome_of S lz) by (vm_compute; reflexivity).
  split; [exact Lf|]. split; [exact Le|]. split; [exact Hs|].
  destruct (planar_four_cosets_label 2 2 ltac:(lia) ltac:(lia) lz Lf) as (_ & _ & _ & H).
  split.
  - apply (proj2 (H e true false Le (same_syndrome_of S e lz Hs))). vm_compute. auto.
  - intros H0. apply (proj1 (H e false false Le (same_syndrome_of S e lz Hs))) in H0. vm_compute in H0.
    destruct H0; discriminate.
Qed.
(* the same case, probabilities with depolarizing numerators (7, 1, 1, 1): both sides of [planar_four_cosets_prob]
   evaluated independently *)
Example planar_four_cosets_prob_ex :
  let S := stabs (planar_code 2 2) in let lx := lxop 2 2 in let lz := lzop 2 2 in let f := lz in
  let d := (7, 1, 1, 1)%Z in
  length (syndrome_class 10 S f) = 64 /\
  sum_list Zring (map (prob Zring d 5) (syndrome_class 10 S f)) = 19264%Z /\
  [coset_prob Zring d 5 S f; coset_prob Zring d 5 S (xorv f lx); coset_prob Zring d 5 S (xorv (xorv f lx) lz);
   coset_prob Zring d 5 S (xorv f lz)] = [928; 352; 928; 17056]%Z /\ (928 + 352 + 928 + 17056 = 19264)%Z.
Proof. vm_compute. auto. Qed.
(* rotated planar 3 x 3 (9 qubits) *)
Example rotplanar_four_cosets_ex :
  let S := stabs (rotplanar_code 3 3) in let lx := rp_lxop 3 3 in let lz := rp_lzop 3 3 in
  let f := nth 1 S [] in let e := xorv (xorv f (nth 0 S [])) (xorv lx lz) in
  length f = 18 /\ length e = 18 /\ syndrome_of S e = syndrome_of S f /\
  in_spanP 18 S (xorv e (cand 18 lx lz f true true)).
Proof.
  cbv zeta.
  set (S := stabs (rotplanar_code 3 3)). set (lx := rp_lxop 3 3). set (lz := rp_lzop 3 3).
  set (f := nth 1 S []). set (e := xorv (xorv f (nth 0 S [])) (xorv lx lz)).
  assert (Lf : length f = 18) by (vm_compute; reflexivity).
  assert (Le : length e = 18) by (vm_compute; reflexivity).
  assert (Hs : syndrome_of S e = syndrome_of S f) by (vm_compute; reflexivity).
  split; [exact Lf|]. split; [exact Le|]. split; [exact Hs|].
  destruct (rotplanar_four_cosets_label 3 3 ltac:(lia) ltac:(lia) f Lf) as (_ & _ & _ & H).
  apply (proj2 (H e true true Le (same_syndrome_of S e f Hs))). vm_compute. auto.
Qed.
(* toric 2 x 2 (8 qubits): e = f . generator . X1 . Z2 is equivalent to the candidate with label (1, 0, 0, 1) *)
Example toric_sixteen_cosets_ex :
  let S := stabs (toric_code 2 2) in
  let x1 := ToricAll.x1op 2 2 in let x2 := ToricAll.x2op 2 2 in let z1 := ToricAll.z1op 2 2 in let z2 := ToricAll.z2op 2 2 in
  let f := x2 in let e := xorv (xorv f (nth 0 S [])) (xorv x1 z2) in
  length f = 16 /\ length e = 16 /\ syndrome_of S e = syndrome_of S f /\
  in_spanP 16 S (xorv e (cand2 16 x1 x2 z1 z2 f true false false true)).
Proof.
  cbv zeta.
  set (S := stabs (toric_code 2 2)).
  set (x1 := ToricAll.x1op 2 2). set (x2 := ToricAll.x2op 2 2). set (z1 := ToricAll.z1op 2 2). set (z2 := ToricAll.z2op 2 2).
  set (e := xorv (xorv x2 (nth 0 S [])) (xorv x1 z2)).
  assert (Lf : length x2 = 16) by (vm_compute; reflexivity).
  assert (Le : length e = 16) by (vm_compute; reflexivity).
  assert (Hs : syndrome_of S e = syndrome_of S x2) by (vm_compute; reflexivity).
  split; [exact Lf|]. split; [exact Le|]. split; [exact Hs|].
  destruct (toric_sixteen_cosets 2 2 ltac:(lia) ltac:(lia) x2 Lf) as (_ & _ & H).
  destruct (H e Le (same_syndrome_of S e x2 Hs)) as [_ H'].
  apply (proj2 (H' true false false true)). vm_compute. auto.
Qed.
(* rotated toric 2 x 2 (4 qubits) *)
Example rottoric_sixteen_cosets_ex :
  let S := stabs (rottoric_code 2 2) in
  let x1 := rt_x1 2 2 in let x2 := rt_x2 2 2 in let z1 := rt_z1 2 2 in let z2 := rt_z2 2 2 in
  let f := z1 in let e := xorv (xorv f (nth 0 S [])) (xorv x2 z2) in
  length f = 8 /\ length e = 8 /\ syndrome_of S e = syndrome_of S f /\
  in_spanP 8 S (xorv e (cand2 8 x1 x2 z1 z2 f false true false true)).
Proof.
  cbv zeta.
  set (S := stabs (rottoric_code 2 2)).
  set (x1 := rt_x1 2 2). set (x2 := rt_x2 2 2). set (z1 := rt_z1 2 2). set (z2 := rt_z2 2 2).
  set (e := xorv (xorv z1 (nth 0 S [])) (xorv x2 z2)).
  assert (Lf : length z1 = 8) by (vm_compute; reflexivity).
  assert (Le : length e = 8) by (vm_compute; reflexivity).
  assert (Hs : syndrome_of S e = syndrome_of S z1) by (vm_compute; reflexivity).
  split; [exact Lf|]. split; [exact Le|]. split; [exact Hs|].
  destruct (rottoric_sixteen_cosets 2 2 ltac:(lia) eq_refl ltac:(lia) eq_refl z1 Lf) as (_ & _ & H).
  destruct (H e Le (same_syndrome_of S e z1 Hs)) as [_ H'].
  apply (proj2 (H' false true false true)). vm_compute. auto.
Qed.

Print Assumptions planar_four_cosets.
Print Assumptions planar_four_cosets_prob.
Print Assumptions rotplanar_four_cosets.
Print Assumptions rotplanar_four_cosets_prob.
Print Assumptions toric_sixteen_cosets.
Print Assumptions toric_sixteen_prob.
Print Assumptions rottoric_sixteen_cosets.
Print Assumptions rottoric_sixteen_prob.
