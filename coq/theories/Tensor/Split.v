(* Tensor/Split.v — c11_split: for every split column, the left part contracted left-to-right
   and the right part contracted right-to-left, recombined by inner_product and their
   multipliers, give exactly the contraction value. *)
From Coq Require Import List Arith Lia Bool ZArith QArith Ring.
From QV Require Import Tensor.Sums Tensor.Net Tensor.StartStop Tensor.Contract Tensor.Sweep Tensor.Ladder Tensor.Exact Tensor.Noop.
Import ListNotations.
Local Open Scope nat_scope.

Section Split.
Variable K : cring.
Add Ring Kring : (cring_th K).
Local Notation tensor := (tensor K).
Local Notation col := (list (option tensor)).
Local Notation rI := (r1 K).
Local Infix "*" := (rmul K).
Local Notation opc := (@opc K).
Local Notation netop := (@netop K).
Local Notation pairwise := (@pairwise K).
Local Notation deo := (deo K).
Local Notation dwo := (dwo K).

Lemma slice_left c n : (0 <= c <= n)%Z -> slice_indices None (Some c) None n = Some (0, c, 1)%Z.
Proof.
  intros H. unfold slice_indices, clip_index. cbn [Z.eqb Z.ltb Z.compare].
  replace (c <? 0)%Z with false by (symmetry; apply Z.ltb_ge; lia).
  replace (n <? c)%Z with false by (symmetry; apply Z.ltb_ge; lia). reflexivity.
Qed.
Lemma slice_right c n : (1 <= c <= n)%Z ->
  slice_indices (Some (-1)%Z) (Some (c - 1)%Z) (Some (-1)%Z) n = Some (n - 1, c - 1, -1)%Z.
Proof.
  intros H. unfold slice_indices, clip_index. cbn [Z.eqb Z.ltb Z.compare].
  replace (-1 + n <? -1)%Z with false by (symmetry; apply Z.ltb_ge; lia).
  replace (c - 1 <? 0)%Z with false by (symmetry; apply Z.ltb_ge; lia).
  replace (n - 1 <? c - 1)%Z with false by (symmetry; apply Z.ltb_ge; lia).
  f_equal. f_equal. f_equal. lia.
Qed.
Lemma range_down n c : c < n ->
  py_range (Z.of_nat n - 1) (Z.of_nat c - 1) (-1)
  = map (fun i => (Z.of_nat n - 1 - Z.of_nat i)%Z) (seq 0 (n - c)).
Proof.
  intros H. unfold py_range, range_len. cbn [Z.ltb Z.compare].
  replace (Z.of_nat c - 1 <? Z.of_nat n - 1)%Z with true by (symmetry; apply Z.ltb_lt; lia).
  cbn [Z.opp]. rewrite Z.div_1_r.
  replace (Z.to_nat (Z.of_nat n - 1 - (Z.of_nat c - 1) - 1 + 1)) with (n - c) by lia.
  apply map_ext. intros i. lia.
Qed.

Lemma left_partial r (left right : list col) :
  left <> [] -> right <> [] -> Forall (fun C : col => length C = r) (left ++ right) ->
  contract K (left ++ right) None None None (Some (Z.of_nat (length left))) None None
  = Ok (Partial (Some (fold_left pairwise (tl left) (hd [] left))) rI).
Proof.
  intros Hl Hr HF. unfold contract, contract_gen.
  rewrite slice_left by (rewrite app_length; lia). cbv beta iota zeta. rewrite range_full.
  destruct left as [|A rest]; [contradiction|]. cbn [length seq map tl hd].
  rewrite <- seq_shift, map_map. cbn [length]. rewrite map_length, seq_length.
  replace (Z.of_nat (length ((A :: rest) ++ right)) =? Z.of_nat (S (length rest)))%Z with false.
  2:{ symmetry. apply Z.eqb_neq. rewrite app_length. cbn [length]. destruct right; [contradiction|]. cbn [length]. lia. }
  cbn [Z.ltb Z.compare].
  change (column K ((A :: rest) ++ right) (Z.of_nat 0)) with A.
  assert (HLA : length A = r) by (inversion HF; auto).
  assert (Hcols : map (column K ((A :: rest) ++ right)) (map (fun x => Z.of_nat (S x)) (seq 0 (length rest))) = rest).
  { rewrite map_map. rewrite (map_ext_in _ (fun i => nth i rest [])).
    - apply map_nth_seq.
    - intros i Hi. apply in_seq in Hi. unfold column. rewrite Nat2Z.id. cbn [app nth]. apply app_nth1. lia. }
  rewrite (sweep_noop K ((A :: rest) ++ right) _ (default_noop K) r); [|exact HLA|].
  2:{ apply Forall_forall. intros c Hc. apply in_map_iff in Hc. destruct Hc as (i & <- & Hi). apply in_seq in Hi.
      unfold column. rewrite Nat2Z.id. rewrite Forall_forall in HF. apply HF. apply nth_In.
      rewrite app_length. cbn [length]. lia. }
  rewrite Hcols. reflexivity.
Qed.

Lemma right_partial r (left lr : list col) (Zr : col) :
  left <> [] -> Forall (fun C : col => length C = r) (left ++ lr ++ [Zr]) ->
  contract K (left ++ lr ++ [Zr]) None None (Some (-1)%Z) (Some (Z.of_nat (length left) - 1)%Z) (Some (-1)%Z) None
  = Ok (Partial (Some (fold_right pairwise Zr lr)) rI).
Proof.
  intros Hl HF. unfold contract, contract_gen.
  assert (Hn : length (left ++ lr ++ [Zr]) = length left + S (length lr)).
  { rewrite !app_length. cbn [length]. lia. }
  assert (Hpos : 0 < length left) by (destruct left; [contradiction|cbn; lia]).
  rewrite slice_right by lia. cbv beta iota zeta.
  rewrite range_down by lia. rewrite Hn.
  replace (length left + S (length lr) - length left) with (S (length lr)) by lia.
  cbn [seq map]. rewrite <- seq_shift, map_map. cbn [length]. rewrite map_length, seq_length.
  replace (Z.of_nat (length left + S (length lr)) =? Z.of_nat (S (length lr)))%Z with false
    by (symmetry; apply Z.eqb_neq; lia).
  cbn [Z.ltb Z.compare].
  assert (Hcol : forall i, i <= length lr ->
             column K (left ++ lr ++ [Zr]) (Z.of_nat (length left + S (length lr)) - 1 - Z.of_nat i) = nth i (Zr :: rev lr) []).
  { intros i Hi. unfold column.
    replace (Z.to_nat (Z.of_nat (length left + S (length lr)) - 1 - Z.of_nat i)) with (length left + (length lr - i)) by lia.
    rewrite app_nth2 by lia. replace (length left + (length lr - i) - length left) with (length lr - i) by lia.
    replace (Zr :: rev lr) with (rev (lr ++ [Zr])) by (rewrite rev_app_distr; reflexivity).
    rewrite rev_nth by (rewrite app_length; cbn; lia). f_equal. rewrite app_length. cbn. lia. }
  assert (HFr : Forall (fun C : col => length C = r) (lr ++ [Zr])) by (apply Forall_app in HF; apply HF).
  assert (HLZ : length Zr = r) by (apply Forall_app in HFr; destruct HFr as [_ H]; inversion H; auto).
  rewrite (Hcol O) by lia. cbn [nth].
  assert (Hcols : map (column K (left ++ lr ++ [Zr]))
                      (map (fun x : nat => (Z.of_nat (length left + S (length lr)) - 1 - Z.of_nat (S x))%Z) (seq 0 (length lr))) = rev lr).
  { rewrite map_map. rewrite (map_ext_in _ (fun i => nth i (rev lr) [])).
    - rewrite <- (rev_length lr) at 1. apply map_nth_seq.
    - intros i Hi. apply in_seq in Hi. rewrite Hcol by lia. reflexivity. }
  rewrite (sweep_noop K (left ++ lr ++ [Zr]) _ (default_noop K) r); [|exact HLZ|].
  2:{ apply Forall_forall. intros c Hc. apply in_map_iff in Hc. destruct Hc as (i & <- & Hi). apply in_seq in Hi.
      rewrite Hcol by lia. cbn [nth]. apply Forall_app in HFr. destruct HFr as [HFl _].
      rewrite Forall_forall in HFl. apply HFl. apply in_rev. apply nth_In. rewrite rev_length. lia. }
  rewrite Hcols.
  assert (Hfold : fold_left (fun acc m : col => if false then pairwise acc m else pairwise m acc) (rev lr) Zr
                  = fold_right pairwise Zr lr).
  { rewrite <- (rev_involutive lr) at 2. rewrite fold_left_rev_right. reflexivity. }
  rewrite Hfold. reflexivity.
Qed.


Lemma hchain_app (l1 l2 : list col) : hchain K (l1 ++ l2) ->
  hchain K l1 /\ hchain K l2 /\ (l1 <> [] -> l2 <> [] -> hmatch K (last l1 []) (hd [] l2)).
Proof.
  induction l1 as [|A l1 IH]; intros H.
  - cbn in *. repeat split; auto. intros; contradiction.
  - change (match l1 ++ l2 with B :: _ => hmatch K A B | [] => True end /\ hchain K (l1 ++ l2)) in H.
    destruct H as [H1 H2]. destruct (IH H2) as (Ha & Hb & Hc).
    split; [|split; [exact Hb|]].
    + change (match l1 with B :: _ => hmatch K A B | [] => True end /\ hchain K l1).
      split; [|exact Ha]. destruct l1 as [|B l1]; [exact I|exact H1].
    + intros _ Hne. destruct l1 as [|B l1].
      * cbn [last]. destruct l2 as [|C l2]; [contradiction|]. exact H1.
      * change (last (A :: B :: l1) []) with (last (B :: l1) []). apply Hc; [discriminate|exact Hne].
Qed.

Lemma occ_row_app (l1 l2 : list col) i : occ_row K (l1 ++ l2) i = occ_row K l1 i || occ_row K l2 i.
Proof. unfold occ_row. apply existsb_app. Qed.

(* c11_split *)
Theorem split_exact r (left right : list col) :
  left <> [] -> right <> [] -> netwf K r (left ++ right) ->
  split_contract K (left ++ right) None None None (Z.of_nat (length left)) = Ok (value r (left ++ right)).
Proof.
  intros Hl Hr Hwf.
  pose proof (netwf_colok K r _ Hwf) as Hok.
  pose proof Hwf as (Hne & HC & HH & _ & _ & HWest & HEast & (a & b & Hab & Hrun)).
  destruct (exists_last Hr) as (lr & Zr & ->).
  destruct left as [|A rest]; [contradiction|].
  cbn [app hd] in HWest.
  unfold split_contract.
  rewrite (left_partial r) by (auto; apply (colok_length K); exact Hok).
  rewrite (right_partial r) by (auto; apply (colok_length K); exact Hok).
  cbn [tl hd].
  set (L := fold_left pairwise rest A). set (R := fold_right pairwise Zr lr).
  apply Forall_app in Hok. destruct Hok as [HokL HokR].
  pose proof (Forall_inv HokL) as HA. pose proof (Forall_inv_tail HokL) as Hrest.
  apply Forall_app in HokR. destruct HokR as [Hlr HZ]. pose proof (Forall_inv HZ) as HZr.
  apply Forall_app in HC. destruct HC as [HCL HCR].
  destruct (hchain_app _ _ HH) as (HHL & HHR & HJ). specialize (HJ ltac:(discriminate) ltac:(destruct lr; discriminate)).
  assert (HcL : colok K r L) by (apply fold_left_colok; auto).
  assert (HcR : colok K r R) by (apply fold_right_colok; auto).
  destruct (sweep_left_shape K r rest A A (Forall_inv HCL) (Forall_inv_tail HCL) eq_refl HHL) as (_ & LW & LE).
  destruct (sweep_right_shape K r lr Zr HCR HHR) as (_ & RW & RE).
  fold L in LW, LE. fold R in RW, RE.
  rewrite last_cons_any in HJ.
  assert (HJ' : map deo (last rest A) = map dwo (hd Zr lr)).
  { apply hmatch_map. destruct lr; exact HJ. }
  assert (HM : hmatch K L R) by (apply hmatch_map; congruence).
  assert (HWL : map dwo L = repeat 1 r) by (rewrite LW; exact HWest).
  assert (HER : map deo R = repeat 1 r).
  { rewrite RE. rewrite app_assoc, last_last in HEast. exact HEast. }
  unfold inner_product, contract_pairwise.
  destruct HcL as (WL & NL & SL). destruct HcR as (WR & NR & SR).
  replace (length L =? length R) with true by (symmetry; apply Nat.eqb_eq; destruct WL, WR; congruence).
  cbn [bind].
  assert (Hsem : opc (pairwise L R) O (repeat O r) (repeat O r) = netop ((A :: rest) ++ lr ++ [Zr]) (repeat O r) (repeat O r)).
  { rewrite (pairwise_sem0 K r); auto; [|rewrite HWL; apply inr_zeros_ones|rewrite HER; apply inr_zeros_ones].
    rewrite netop_app by (try discriminate; destruct lr; discriminate).
    rewrite last_cons_any. rewrite LE.
    apply sumt_ext_in. intros mid Hmid. f_equal.
    - apply (sweep_left_netop K r); auto. rewrite HWest. apply inr_zeros_ones.
    - apply (sweep_right_sem K r); auto.
      + rewrite <- HJ'. exact Hmid.
      + rewrite <- RE, HER. apply inr_zeros_ones. }
  rewrite (ladder_scalar_sem K r (pairwise L R) a b); auto.
  - cbn [bind]. unfold value. rewrite <- Hsem. f_equal. ring.
  - rewrite pairwise_length; destruct WL, WR; congruence.
  - apply pairwise_vchain; destruct WL as (? & ? & ?), WR as (? & ? & ?); auto; congruence.
  - rewrite pairwise_hd_dn by (destruct WL, WR; congruence). rewrite NL, NR. reflexivity.
  - rewrite pairwise_last_ds by (destruct WL, WR; congruence). rewrite SL, SR. reflexivity.
  - rewrite pairwise_deo by exact HM. exact HER.
  - rewrite pairwise_dwo by exact HM. exact HWL.
  - intros i Hi. rewrite <- Hrun by exact Hi.
    rewrite pairwise_nth_some by (destruct WL, WR; congruence).
    unfold L, R. rewrite (fold_left_occ K r) by (auto using (colok_length K); destruct HA as ((? & _) & _); auto).
    rewrite (fold_right_occ K r) by (auto using (colok_length K); destruct HZr as ((? & _) & _); auto).
    rewrite (occ_row_app (A :: rest) (lr ++ [Zr])). reflexivity.
Qed.

End Split.
