(* Tensor/MpsAlias.v — the caller's container is not modified by a sweep that works on a copy.

   Python model.  The caller hands over a *container* of tensor objects.  A Python list / tuple owns its
   spine ([Owned]).  A 1-d NumPy object array that is a view (a network column tn[:, c], a row, a strided
   slice, or the whole of an owning array) is a window [View a idxs] onto array [a] of the heap: element i
   of the container is cell [nth i idxs] of [a].  left_canonical_form starts with
       lcf_mps = list(mps)          (mps.py:233)
   and then performs item assignments  lcf_mps[row] = ...  only on lcf_mps.  [list_copy] models list(mps):
   a fresh owned spine.  [slice_copy] models mps[:]: a fresh spine for a list, but for an array *the same
   window* (basic slicing of an ndarray returns a view).  The sweep itself is abstracted to an arbitrary
   sequence of item assignments, so the theorems hold for every sweep (QR, SVD, masks, zero short-cut). *)
From Coq Require Import List Arith Lia Bool.
Import ListNotations.

Section Alias.
Variable X : Type.          (* tensor objects *)
Variable dflt : X.

Definition heap := nat -> list X.
Inductive container := Owned (cells : list X) | View (a : nat) (idxs : list nat).

Fixpoint upd (l : list X) (i : nat) (v : X) : list X :=
  match l, i with
  | [], _ => []
  | _ :: t, 0 => v :: t
  | h :: t, S j => h :: upd t j v
  end.

Definition read (h : heap) (c : container) : list X :=
  match c with
  | Owned cells => cells
  | View a idxs => map (fun k => nth k (h a) dflt) idxs
  end.

(* c[i] = v : item assignment through the handle c *)
Definition assign (h : heap) (c : container) (i : nat) (v : X) : heap * container :=
  match c with
  | Owned cells => (h, Owned (upd cells i v))
  | View a idxs =>
      if i <? length idxs
      then ((fun b => if b =? a then upd (h a) (nth i idxs 0) v else h b), c)
      else (h, c)
  end.

Fixpoint assigns (h : heap) (c : container) (ws : list (nat * X)) : heap * container :=
  match ws with
  | [] => (h, c)
  | (i, v) :: rest => let '(h', c') := assign h c i v in assigns h' c' rest
  end.

Definition list_copy (h : heap) (c : container) : container := Owned (read h c).
Definition slice_copy (h : heap) (c : container) : container :=
  match c with Owned cells => Owned cells | View a idxs => View a idxs end.

Lemma assigns_owned_heap ws : forall h cells, fst (assigns h (Owned cells) ws) = h.
Proof.
  induction ws as [|[i v] ws IH]; intros h cells; simpl; [reflexivity|apply IH].
Qed.

(* list(mps): whatever the sweep assigns, the heap is untouched, hence every container of the caller - the
   one handed over, and the network it may be a view of - reads exactly as before *)
Theorem list_copy_heap_unchanged : forall h c ws, fst (assigns h (list_copy h c) ws) = h.
Proof. intros h c ws. apply assigns_owned_heap. Qed.

Theorem list_copy_input_unchanged : forall h c ws c',
  read (fst (assigns h (list_copy h c) ws)) c' = read h c'.
Proof. intros h c ws c'. rewrite list_copy_heap_unchanged. reflexivity. Qed.

(* mps[:] is as good as list(mps) for lists ... *)
Theorem slice_copy_owned_unchanged : forall h cells ws c',
  read (fst (assigns h (slice_copy h (Owned cells)) ws)) c' = read h c'.
Proof. intros h cells ws c'. simpl. rewrite assigns_owned_heap. reflexivity. Qed.

(* ... but not for array views: one assignment through the slice is seen by the caller *)
Lemma upd_nth_same : forall l i v, i < length l -> nth i (upd l i v) dflt = v.
Proof.
  induction l as [|x l IH]; intros i v Hi; simpl in *; [lia|].
  destruct i; simpl; [reflexivity|apply IH; lia].
Qed.

Lemma nth_map_in : forall (f : nat -> X) l i d, i < length l -> nth i (map f l) d = f (nth i l 0).
Proof.
  intros f l. induction l as [|x l IH]; intros i d Hi; simpl in *; [lia|].
  destruct i; [reflexivity|apply IH; lia].
Qed.

Theorem slice_copy_view_aliases : forall h a idxs i v,
  i < length idxs -> nth i idxs 0 < length (h a) ->
  nth i (read (fst (assigns h (slice_copy h (View a idxs)) [(i, v)])) (View a idxs)) dflt = v.
Proof.
  intros h a idxs i v Hi Hk. simpl.
  destruct (i <? length idxs) eqn:E; [|apply Nat.ltb_ge in E; lia].
  simpl. rewrite Nat.eqb_refl.
  rewrite nth_map_in by exact Hi. apply upd_nth_same. exact Hk.
Qed.

End Alias.

(* non-vacuity: an array [t0; t1; t2] viewed whole; the sweep assigns 7 to row 1.  With list(mps) the caller
   still reads [0;1;2]; with mps[:] the caller reads [0;7;2]. *)
Example alias_list_copy :
  let h := fun a : nat => if a =? 0 then [0; 1; 2] else [] in
  read nat 0 (fst (assigns nat h (list_copy nat 0 h (View nat 0 [0; 1; 2])) [(1, 7)])) (View nat 0 [0; 1; 2]) = [0; 1; 2].
Proof. vm_compute. reflexivity. Qed.
Example alias_slice_copy :
  let h := fun a : nat => if a =? 0 then [0; 1; 2] else [] in
  read nat 0 (fst (assigns nat h (slice_copy nat h (View nat 0 [0; 1; 2])) [(1, 7)])) (View nat 0 [0; 1; 2]) = [0; 7; 2].
Proof. vm_compute. reflexivity. Qed.
