(* Tensor/StartStop.v — model of mps._mps_start_stop_indices (the contiguous-run finder used by
   contract_ladder and left_canonical_form) and its specification. *)
From Coq Require Import List Arith Lia Bool.
Import ListNotations.

Section SS.
Context {X : Type}.
Definition is_some (o : option X) : bool := match o with Some _ => true | None => false end.

(* the loop: start / stop are Python's None-initialised variables; result None = ValueError *)
Fixpoint ss_loop (l : list (option X)) (i : nat) (start stop : option nat) : option (option nat * option nat) :=
  match l with
  | [] => Some (start, stop)
  | t :: l' =>
      match start with
      | None => ss_loop l' (S i) (if is_some t then Some i else None) stop
      | Some _ =>
          match stop with
          | None => ss_loop l' (S i) start (if is_some t then None else Some i)
          | Some _ => if is_some t then None else ss_loop l' (S i) start stop
          end
      end
  end.
Definition start_stop (l : list (option X)) : option (nat * nat) :=
  match ss_loop l 0 None None with
  | None => None
  | Some (None, _) => Some (0, 0)
  | Some (Some a, None) => Some (a, length l)
  | Some (Some a, Some b) => Some (a, b)
  end.

(* specification: positions a <= i < b are exactly the tensors *)
Definition run_spec (l : list (option X)) (a b : nat) : Prop :=
  a <= b <= length l /\ forall i, i < length l -> (is_some (nth i l None) = true <-> a <= i < b).

(* phase 3: start and stop found *)
Lemma ss_loop3 l : forall i a b,
  match ss_loop l i (Some a) (Some b) with
  | Some r => r = (Some a, Some b) /\ forall k, k < length l -> is_some (nth k l None) = false
  | None => exists k, k < length l /\ is_some (nth k l None) = true
  end.
Proof.
  induction l as [|t l IH]; intros i a b; cbn [ss_loop].
  - split; [reflexivity|]. cbn. lia.
  - destruct (is_some t) eqn:Et.
    + exists 0. cbn. split; [lia|exact Et].
    + specialize (IH (S i) a b). destruct (ss_loop l (S i) (Some a) (Some b)).
      * destruct IH as [-> IH]. split; [reflexivity|]. intros [|k] Hk; cbn in *; [exact Et|apply IH; lia].
      * destruct IH as [k [Hk1 Hk2]]. exists (S k). cbn. split; [lia|exact Hk2].
Qed.
(* phase 2: start found, looking for the first None *)
Lemma ss_loop2 l : forall i a,
  match ss_loop l i (Some a) None with
  | Some (Some a', None) => a' = a /\ forall k, k < length l -> is_some (nth k l None) = true
  | Some (Some a', Some b) => a' = a /\ i <= b < i + length l /\
        forall k, k < length l -> (is_some (nth k l None) = true <-> i + k < b)
  | Some (None, _) => False
  | None => exists j k, j < k < length l /\ is_some (nth j l None) = false /\ is_some (nth k l None) = true
  end.
Proof.
  induction l as [|t l IH]; intros i a; cbn [ss_loop].
  - split; [reflexivity|]. cbn. lia.
  - destruct (is_some t) eqn:Et.
    + specialize (IH (S i) a). destruct (ss_loop l (S i) (Some a) None) as [[[a'|] [b|]]|]; try contradiction.
      * destruct IH as (-> & Hb & IH). split; [reflexivity|]. split; [cbn; lia|].
        intros [|k] Hk; cbn in *. { split; [lia|auto]. } rewrite IH by lia. lia.
      * destruct IH as [-> IH]. split; [reflexivity|]. intros [|k] Hk; cbn in *; [exact Et|apply IH; lia].
      * destruct IH as (j & k & Hjk & Hj & Hk). exists (S j), (S k). cbn. repeat split; auto; lia.
    + pose proof (ss_loop3 l (S i) a i) as H3. destruct (ss_loop l (S i) (Some a) (Some i)).
      * destruct H3 as [-> H3]. split; [reflexivity|]. split; [cbn; lia|].
        intros [|k] Hk; cbn in *. { rewrite Et. split; [discriminate|lia]. }
        rewrite H3 by lia. split; [discriminate|lia].
      * destruct H3 as (k & Hk1 & Hk2). exists 0, (S k). cbn. repeat split; auto; lia.
Qed.
(* phase 1: nothing found yet *)
Lemma ss_loop1 l : forall i,
  match ss_loop l i None None with
  | Some (None, _) => forall k, k < length l -> is_some (nth k l None) = false
  | Some (Some a, None) => i <= a < i + length l /\
        forall k, k < length l -> (is_some (nth k l None) = true <-> a <= i + k)
  | Some (Some a, Some b) => i <= a < b /\ b < i + length l /\
        forall k, k < length l -> (is_some (nth k l None) = true <-> a <= i + k < b)
  | None => exists j k m, j < k < m /\ m < length l /\ is_some (nth j l None) = true
                          /\ is_some (nth k l None) = false /\ is_some (nth m l None) = true
  end.
Proof.
  induction l as [|t l IH]; intros i; cbn [ss_loop].
  - cbn. lia.
  - destruct (is_some t) eqn:Et.
    + pose proof (ss_loop2 l (S i) i) as H2. destruct (ss_loop l (S i) (Some i) None) as [[[a'|] [b|]]|]; try contradiction.
      * destruct H2 as (-> & Hb & H2). split; [lia|]. split; [cbn; lia|].
        intros [|k] Hk; cbn in *. { rewrite Et. split; [lia|auto]. } rewrite H2 by lia. lia.
      * destruct H2 as [-> H2]. split; [cbn; lia|].
        intros [|k] Hk; cbn in *. { rewrite Et. split; [lia|auto]. } rewrite H2 by lia. split; [lia|auto].
      * destruct H2 as (j & k & Hjk & Hj & Hk). exists 0, (S j), (S k). cbn. repeat split; auto; lia.
    + specialize (IH (S i)). destruct (ss_loop l (S i) None None) as [[[a|] [b|]]|].
      * destruct IH as (Ha & Hb & IH). split; [lia|]. split; [cbn; lia|].
        intros [|k] Hk; cbn in *. { rewrite Et. split; [discriminate|lia]. } rewrite IH by lia. lia.
      * destruct IH as [Ha IH]. split; [cbn; lia|].
        intros [|k] Hk; cbn in *. { rewrite Et. split; [discriminate|lia]. } rewrite IH by lia. lia.
      * intros [|k] Hk; cbn in *; [exact Et|apply IH; lia].
      * intros [|k] Hk; cbn in *; [exact Et|apply IH; lia].
      * destruct IH as (j & k & m & Hjkm & Hm & Hj & Hk & Hm'). exists (S j), (S k), (S m). cbn. repeat split; auto; lia.
Qed.

(* soundness: the returned pair delimits exactly the tensors *)
Theorem start_stop_sound l a b : start_stop l = Some (a, b) -> run_spec l a b.
Proof.
  unfold start_stop, run_spec. pose proof (ss_loop1 l 0) as H.
  destruct (ss_loop l 0 None None) as [[[a'|] [b'|]]|]; intros E; try discriminate; injection E as <- <-.
  - destruct H as (Ha & Hb & H). split; [lia|]. intros i Hi. rewrite H by lia. lia.
  - destruct H as (Ha & H). split; [lia|]. intros i Hi. rewrite H by lia. lia.
  - split; [lia|]. intros i Hi. rewrite H by lia. split; [discriminate|lia].
  - split; [lia|]. intros i Hi. rewrite H by lia. split; [discriminate|lia].
Qed.
(* completeness: ValueError exactly when a tensor follows a None that follows a tensor *)
Theorem start_stop_error l : start_stop l = None <->
  exists j k m, j < k < m /\ m < length l /\ is_some (nth j l None) = true
                /\ is_some (nth k l None) = false /\ is_some (nth m l None) = true.
Proof.
  split.
  - unfold start_stop. pose proof (ss_loop1 l 0) as H.
    destruct (ss_loop l 0 None None) as [[[a'|] [b'|]]|]; intros E; try discriminate. exact H.
  - intros (j & k & m & Hjkm & Hm & Hj & Hk & Hm'). destruct (start_stop l) as [[a b]|] eqn:E; [|reflexivity].
    apply start_stop_sound in E. destruct E as [Hab E].
    apply E in Hj; [|lia]. apply E in Hm'; [|lia].
    assert (is_some (nth k l None) = true) by (apply E; lia). congruence.
Qed.

(* structural form used by the contraction proofs *)
Lemma start_stop_form a (ts : list X) c : ts <> [] ->
  start_stop (repeat None a ++ map Some ts ++ repeat None c) = Some (a, a + length ts).
Proof.
  intros Hne. set (l := repeat None a ++ map Some ts ++ repeat None c).
  assert (Hlen : length l = a + length ts + c) by (unfold l; rewrite !app_length, !repeat_length, map_length; lia).
  assert (Hnth : forall i, i < length l -> (is_some (nth i l None) = true <-> a <= i < a + length ts)).
  { intros i Hi. unfold l. destruct (Nat.lt_ge_cases i a) as [H1|H1].
    - rewrite app_nth1 by (rewrite repeat_length; lia). rewrite nth_repeat. cbn. split; [discriminate|lia].
    - rewrite app_nth2 by (rewrite repeat_length; lia). rewrite repeat_length.
      destruct (Nat.lt_ge_cases (i - a) (length ts)) as [H2|H2].
      + rewrite app_nth1 by (rewrite map_length; lia).
        destruct ts as [|t0 ts']; [contradiction|].
        rewrite (nth_indep _ None (Some t0)) by (rewrite map_length; exact H2). rewrite map_nth. cbn [is_some]. split; [lia|auto].
      + rewrite app_nth2 by (rewrite map_length; lia). rewrite nth_repeat. cbn. split; [discriminate|lia]. }
  destruct (start_stop l) as [[a' b']|] eqn:E.
  - apply start_stop_sound in E. destruct E as [Hab E].
    assert (Hlt : 0 < length ts) by (destruct ts; [contradiction|cbn; lia]).
    assert (a' = a /\ b' = a + length ts); [|destruct H; congruence].
    assert (Ha : is_some (nth a l None) = true) by (apply Hnth; lia).
    apply E in Ha; [|lia].
    assert (Hb : is_some (nth (a + length ts - 1) l None) = true) by (apply Hnth; lia).
    apply E in Hb; [|lia].
    split.
    + destruct (Nat.eq_dec a' a); [auto|]. assert (Ha' : is_some (nth a' l None) = true) by (apply E; lia).
      apply Hnth in Ha'; lia.
    + destruct (Nat.eq_dec b' (a + length ts)); [auto|].
      assert (Hb' : is_some (nth (b' - 1) l None) = true) by (apply E; lia).
      apply Hnth in Hb'; lia.
  - apply start_stop_error in E. destruct E as (j & k & m & Hjkm & Hm & Hj & Hk & Hm').
    apply Hnth in Hj; [|lia]. apply Hnth in Hm'; [|lia].
    assert (is_some (nth k l None) = true) by (apply Hnth; lia). congruence.
Qed.

End SS.
