(* Core/Span.v — GF(2) linear combinations of binary vectors, span membership with an explicit
   coefficient witness (Gaussian elimination whose answer is re-checked, hence sound by
   construction), and the rank computed by the same elimination. *)
From Coq Require Import Arith List Bool Lia.
From QV Require Import Core.Bits.
Import ListNotations.

(* XOR of the generators selected by the coefficients; n = vector length *)
Fixpoint lincomb (n : nat) (cs : list bool) (gens : list bsf) : bsf :=
  match cs, gens with
  | c :: cs', g :: gens' => if c then xorv g (lincomb n cs' gens') else lincomb n cs' gens'
  | _, _ => zeros n
  end.
Definition in_spanP (n : nat) (gens : list bsf) (v : bsf) : Prop :=
  exists cs, length cs = length gens /\ lincomb n cs gens = v.

(* ---- elimination: a basis in insertion order, each entry (pivot, reduced vector, coefficients
   over the original generators); a later entry is zero at every earlier pivot ---- *)
Fixpoint lead_from (i : nat) (v : bsf) : option nat :=
  match v with [] => None | x :: r => if x then Some i else lead_from (S i) r end.
Definition lead (v : bsf) : option nat := lead_from 0 v.
Definition bentry := (nat * bsf * list bool)%type.
Fixpoint reduce (basis : list bentry) (v : bsf) (c : list bool) : bsf * list bool :=
  match basis with
  | [] => (v, c)
  | (p, b, cb) :: rest => if nth p v false then reduce rest (xorv v b) (xorv c cb) else reduce rest v c
  end.
Definition unit_vec (k i : nat) : list bool := map (fun j => j =? i) (seq 0 k).
Fixpoint add_gens (k : nat) (i : nat) (gens : list bsf) (basis : list bentry) : list bentry :=
  match gens with
  | [] => basis
  | g :: gens' =>
      let '(r, c) := reduce basis g (unit_vec k i) in
      add_gens k (S i) gens' (match lead r with Some p => basis ++ [(p, r, c)] | None => basis end)
  end.
Definition basis_of (gens : list bsf) : list bentry := add_gens (length gens) 0 gens [].
Definition rank (gens : list bsf) : nat := length (basis_of gens).
Definition span_witness (gens : list bsf) (v : bsf) : option (list bool) :=
  let '(r, c) := reduce (basis_of gens) v (zeros (length gens)) in
  if is_zero r then Some c else None.

(* the decision used by the checks: the elimination's coefficients are accepted only if they
   really combine to v, so the answer is sound whatever basis is supplied (the driver computes
   basis_of gens once per matrix) *)
Definition in_span_with (basis : list bentry) (n : nat) (gens : list bsf) (v : bsf) : option (list bool) :=
  let '(r, c) := reduce basis v (zeros (length gens)) in
  if is_zero r && (length c =? length gens) && beqv (lincomb n c gens) v then Some c else None.
Definition in_span (n : nat) (gens : list bsf) (v : bsf) : option (list bool) := in_span_with (basis_of gens) n gens v.
Definition in_spanb (n : nat) (gens : list bsf) (v : bsf) : bool :=
  match in_span n gens v with Some _ => true | None => false end.

Theorem in_span_with_sound basis n gens v c : in_span_with basis n gens v = Some c ->
  length c = length gens /\ lincomb n c gens = v.
Proof.
  unfold in_span_with. destruct (reduce basis v (zeros (length gens))) as [r c'].
  destruct (is_zero r && (length c' =? length gens) && beqv (lincomb n c' gens) v) eqn:E; [|discriminate].
  intros H. injection H as <-. apply andb_true_iff in E. destruct E as [E E2]. apply andb_true_iff in E. destruct E as [_ E1].
  apply Nat.eqb_eq in E1. apply beqv_spec in E2. auto.
Qed.
Theorem in_span_sound n gens v c : in_span n gens v = Some c -> length c = length gens /\ lincomb n c gens = v.
Proof. apply in_span_with_sound. Qed.
Theorem in_spanb_sound n gens v : in_spanb n gens v = true -> in_spanP n gens v.
Proof.
  unfold in_spanb. destruct (in_span n gens v) as [c|] eqn:E; [|discriminate]. intros _.
  exists c. now apply in_span_sound.
Qed.

(* ---- algebra of lincomb ---- *)
Lemma lincomb_length n : forall cs gens, Forall (fun g => length g = n) gens -> length (lincomb n cs gens) = n.
Proof.
  induction cs as [|c cs IH]; intros [|g gens] H; cbn; try apply zeros_length.
  inversion H as [|? ? Hg Hgs]; subst. destruct c; [|now apply IH]. rewrite xorv_length; auto. now rewrite IH.
Qed.
Lemma lincomb_zeros n gens : lincomb n (zeros (length gens)) gens = zeros n.
Proof. induction gens as [|g gens IH]; cbn; auto. Qed.
Lemma in_spanP_zero n gens : in_spanP n gens (zeros n).
Proof. exists (zeros (length gens)). split; [apply zeros_length|apply lincomb_zeros]. Qed.
Lemma lincomb_xorv n : forall cs ds gens, Forall (fun g => length g = n) gens ->
  length cs = length gens -> length ds = length gens ->
  lincomb n (xorv cs ds) gens = xorv (lincomb n cs gens) (lincomb n ds gens).
Proof.
  induction cs as [|c cs IH]; intros [|d ds] [|g gens] H L1 L2; cbn in *; try lia.
  - now rewrite xorv_zz.
  - inversion H as [|? ? Hg Hgs]; subst.
    assert (Lc : length (lincomb (length g) cs gens) = length g) by now apply lincomb_length.
    assert (Ld : length (lincomb (length g) ds gens) = length g) by now apply lincomb_length.
    rewrite IH by (auto; lia). destruct c, d; cbn.
    + rewrite xorv_assoc. rewrite <- (xorv_assoc (lincomb _ cs gens)). rewrite (xorv_comm (lincomb _ cs gens) g).
      rewrite xorv_assoc. rewrite <- xorv_assoc. rewrite xorv_self. rewrite xorv_zeros_l; auto.
      rewrite xorv_length; lia.
    + now rewrite xorv_assoc.
    + rewrite <- !xorv_assoc. f_equal. apply xorv_comm.
    + reflexivity.
Qed.
Theorem in_spanP_xorv n gens a b : Forall (fun g => length g = n) gens ->
  in_spanP n gens a -> in_spanP n gens b -> in_spanP n gens (xorv a b).
Proof.
  intros H (ca & La & <-) (cb & Lb & <-). exists (xorv ca cb). split.
  - rewrite xorv_length; lia.
  - now apply lincomb_xorv.
Qed.

(* ---- a checkable certificate for the negative answer: a functional w that vanishes on every
   generator but not on v ---- *)
Definition not_in_span_cert (gens : list bsf) (w v : bsf) : bool :=
  forallb (fun g => negb (dot g w)) gens && dot v w.
Lemma dot_lincomb n w : forall cs gens, Forall (fun g => length g = n) gens ->
  (forall g, In g gens -> dot g w = false) -> dot (lincomb n cs gens) w = false.
Proof.
  induction cs as [|c cs IH]; intros [|g gens] Hl Hz; cbn; try apply dot_zeros_l.
  inversion Hl as [|? ? Hg Hgs]; subst.
  assert (IH' : dot (lincomb (length g) cs gens) w = false) by (apply IH; auto; intros; apply Hz; cbn; auto).
  destruct c; auto. rewrite dot_xorv_l by (now rewrite lincomb_length). rewrite IH', (Hz g) by (cbn; auto). reflexivity.
Qed.
Theorem not_in_span_cert_sound n gens w v : Forall (fun g => length g = n) gens ->
  not_in_span_cert gens w v = true -> ~ in_spanP n gens v.
Proof.
  intros Hl H (cs & _ & E). unfold not_in_span_cert in H. apply andb_true_iff in H. destruct H as [H1 H2].
  rewrite forallb_forall in H1. rewrite <- E in H2. rewrite dot_lincomb in H2; auto; [discriminate|].
  intros g Hg. specialize (H1 g Hg). now destruct (dot g w).
Qed.
