(* Core/Dist.v — minimum distance of a stabilizer code, literally as in the property text, with sound
   decision procedures: an upper-bound certificate (a weight-d normalizer element anticommuting with a
   normalizer element, hence not a stabilizer product) and an exhaustive lower bound over all Paulis
   of weight < d (completeness of the enumeration is Core/Enum.ipauli_spec). *)
From Coq Require Import Arith List Bool Lia.
From QV Require Import Core.Bits Core.Pauli Core.Symp Core.Enum Core.Span Core.Rank.
Import ListNotations.

Definition normalizer (stabs : list bsf) (v : bsf) : Prop := forall s, In s stabs -> bsp v s = false.
Definition normalizerb (stabs : list bsf) (v : bsf) : bool := is_zero (syndrome_of stabs v).
(* non-trivial logical operator on n qubits *)
Definition nontrivial (n : nat) (stabs : list bsf) (v : bsf) : Prop :=
  length v = 2 * n /\ normalizer stabs v /\ ~ in_spanP (2 * n) stabs v.
Definition is_distance (n : nat) (stabs : list bsf) (d : nat) : Prop :=
  (exists v, nontrivial n stabs v /\ bsf_wt v = d) /\
  (forall v, nontrivial n stabs v -> d <= bsf_wt v).

Lemma normalizerb_spec stabs v : normalizerb stabs v = true <-> normalizer stabs v.
Proof.
  unfold normalizerb, normalizer, syndrome_of, is_zero. rewrite forallb_forall. split.
  - intros H s Hs. specialize (H (bsp v s) (in_map (fun s => bsp v s) _ _ Hs)). now destruct (bsp v s).
  - intros H x Hx. apply in_map_iff in Hx. destruct Hx as (s & <- & Hs). now rewrite H.
Qed.

Lemma dot_false_l_local v : (forall x, In x v -> x = false) -> forall s, dot v s = false.
Proof.
  induction v as [|x v IH]; intros H [|y s]; cbn; auto.
  rewrite (H x) by (cbn; auto). cbn. rewrite IH; auto. intros; apply H; cbn; auto.
Qed.
Lemma firstn_In_l {A} k (l : list A) x : In x (firstn k l) -> In x l.
Proof. revert l. induction k as [|k IH]; intros [|a l] H; cbn in *; auto; try tauto. destruct H as [H|H]; [left; exact H|right; apply IH; exact H]. Qed.
Lemma skipn_In_l {A} k (l : list A) x : In x (skipn k l) -> In x l.
Proof. revert l. induction k as [|k IH]; intros [|a l] H; cbn in *; auto. Qed.
Lemma bsp_zeros_l_local k s : bsp (zeros k) s = false.
Proof.
  unfold bsp, swap_halves, halves, zeros. apply dot_false_l_local. intros x Hx.
  apply in_app_iff in Hx. destruct Hx as [Hx|Hx]; [apply skipn_In_l in Hx|apply firstn_In_l in Hx];
    now apply repeat_spec in Hx.
Qed.

(* everything in the span of operators commuting with l commutes with l *)
Lemma span_commutes m stabs l : rowlen m stabs -> (forall s, In s stabs -> bsp s l = false) ->
  forall v, in_spanP m stabs v -> bsp v l = false.
Proof.
  intros Hr Hc v (cs & _ & <-). revert cs. induction stabs as [|s stabs IH]; intros cs.
  - destruct cs; cbn; apply bsp_zeros_l_local.
  - destruct cs as [|c cs]; cbn [lincomb]; [apply bsp_zeros_l_local|].
    inversion Hr as [|? ? Hs Hrest]; subst.
    assert (Hc' : forall s0, In s0 stabs -> bsp s0 l = false) by (intros; apply Hc; cbn; auto).
    destruct c.
    + rewrite bsp_linear_l by (rewrite lincomb_length; auto). rewrite (Hc s) by (cbn; auto). now rewrite IH.
    + now apply IH.
Qed.

(* ---- upper bound: witness v of weight d, separated from the stabilizer group by l ---- *)
Definition upper_check (n : nat) (stabs : list bsf) (d : nat) (v l : bsf) : bool :=
  forallb (fun r => length r =? 2 * n) stabs && (length v =? 2 * n) && (bsf_wt v =? d) &&
  normalizerb stabs v && forallb (fun s => negb (bsp s l)) stabs && bsp v l.
Theorem upper_check_sound n stabs d v l : upper_check n stabs d v l = true ->
  nontrivial n stabs v /\ bsf_wt v = d.
Proof.
  unfold upper_check. rewrite !andb_true_iff. intros (((((H1 & H2) & H3) & H4) & H5) & H6).
  apply Nat.eqb_eq in H2, H3. split; [|exact H3]. split; [exact H2|split].
  - now apply normalizerb_spec.
  - intros Hin. rewrite (span_commutes (2 * n) stabs l) in H6; [discriminate| | |exact Hin].
    + now apply forallb_rowlen.
    + intros s Hs. rewrite forallb_forall in H5. specialize (H5 s Hs). now destruct (bsp s l).
Qed.

(* ---- lower bound: every normalizer element of weight < d is a stabilizer product ---- *)
(* span membership with a precomputed elimination basis; the witness is re-checked, so any basis is sound *)
Definition in_spanb_pre (basis : list bentry) (m : nat) (gens : list bsf) (v : bsf) : bool :=
  let '(r, c) := reduce basis v (zeros (length gens)) in
  is_zero r && (length c =? length gens) && beqv (lincomb m c gens) v.
Lemma in_spanb_pre_sound basis m gens v : in_spanb_pre basis m gens v = true -> in_spanP m gens v.
Proof.
  unfold in_spanb_pre. destruct (reduce basis v (zeros (length gens))) as [r c].
  rewrite !andb_true_iff. intros ((_ & H1) & H2). apply Nat.eqb_eq in H1. apply beqv_spec in H2.
  exists c. auto.
Qed.
Definition lower_check (n : nat) (stabs : list bsf) (d : nat) : bool :=
  match d with
  | O => true
  | S d' => let basis := basis_of stabs in
            forallb (fun v => if normalizerb stabs v then in_spanb_pre basis (2 * n) stabs v else true)
                    (ibsf n 0 (Nat.min d' n))
  end.
Theorem lower_check_sound n stabs d : lower_check n stabs d = true ->
  forall v, nontrivial n stabs v -> d <= bsf_wt v.
Proof.
  intros H v (Hl & Hn & Hs). destruct d as [|d']; [lia|]. cbn [lower_check] in H.
  destruct (le_lt_dec (S d') (bsf_wt v)) as [|Hlt]; [assumption|exfalso].
  rewrite forallb_forall in H.
  assert (Hev : Nat.even (length v) = true) by (rewrite Hl; apply Nat.even_spec; now exists n).
  assert (Hlen : length (of_bsf v) = n).
  { pose proof (to_bsf_length (of_bsf v)) as E. rewrite to_of_bsf in E by exact Hev. lia. }
  assert (Hw : pauli_wt (of_bsf v) = bsf_wt v) by (rewrite <- bsf_wt_to_bsf, to_of_bsf; auto).
  assert (Hwn : pauli_wt (of_bsf v) <= n).
  { rewrite <- Hlen. generalize (of_bsf v). induction l as [|p l IH]; cbn; [lia|]. destruct p; cbn; lia. }
  assert (Hin : In v (ibsf n 0 (Nat.min d' n))).
  { unfold ibsf. rewrite <- (to_of_bsf v Hev). apply in_map. apply ipauli_spec; [lia|]. split; [exact Hlen|]. lia. }
  specialize (H v Hin). apply normalizerb_spec in Hn. cbn zeta in H. rewrite Hn in H.
  apply Hs. eapply in_spanb_pre_sound; eauto.
Qed.

Definition distance_check (n : nat) (stabs : list bsf) (d : nat) (v l : bsf) : bool :=
  upper_check n stabs d v l && lower_check n stabs d.
Theorem distance_check_sound n stabs d v l : distance_check n stabs d v l = true -> is_distance n stabs d.
Proof.
  unfold distance_check. rewrite andb_true_iff. intros (H1 & H2). split.
  - exists v. now apply upper_check_sound with (l := l).
  - now apply lower_check_sound.
Qed.
