(* Core/Pauli.v — Pauli letters and strings; model of paulitools.pauli_to_bsf,
   bsf_to_pauli, pauli_wt, bsf_wt; independent letter-level commutation. *)
From Coq Require Import Arith List Bool Lia.
From QV Require Import Core.Bits.
Import ListNotations.

Inductive pl := pI | pX | pY | pZ.
Definition pl_eq_dec (a b : pl) : {a = b} + {a <> b}. Proof. decide equality. Defined.
Definition pl_eqb (a b : pl) : bool := if pl_eq_dec a b then true else false.
Notation pstr := (list pl).

Definition xbit p := match p with pX | pY => true | _ => false end.
Definition zbit p := match p with pZ | pY => true | _ => false end.
(* pauli_to_bsf._to_bsf : hstack((ps=='X')+(ps=='Y'), (ps=='Z')+(ps=='Y')) *)
Definition to_bsf (s : pstr) : bsf := map xbit s ++ map zbit s.
Definition to_bsf_list (ss : list pstr) : list bsf := map to_bsf ss.

Definition halves (a : bsf) : bsf * bsf := let n := length a / 2 in (firstn n a, skipn n a).
(* bsf_to_pauli._to_pauli : x + 2z -> 0=pI,1=pX,2=pZ,3=pY *)
Definition letter (x z : bool) : pl :=
  match x, z with false, false => pI | true, false => pX | false, true => pZ | true, true => pY end.
Fixpoint letters (xs zs : bsf) : pstr :=
  match xs, zs with x :: xs', z :: zs' => letter x z :: letters xs' zs' | _, _ => [] end.
Definition of_bsf (b : bsf) : pstr := let '(xs, zs) := halves b in letters xs zs.
Definition of_bsf_list (bs : list bsf) : list pstr := map of_bsf bs.

Definition wt1 (p : pl) : nat := match p with pI => 0 | _ => 1 end.
Fixpoint pauli_wt (s : pstr) : nat := match s with [] => 0 | p :: r => wt1 p + pauli_wt r end.
Definition pauli_wt_list (ss : list pstr) : nat := fold_right (fun s acc => pauli_wt s + acc) 0 ss.
(* bsf_wt : count_nonzero(sum(hsplit(bsf,2))) *)
Definition bsf_wt (b : bsf) : nat := let '(xs, zs) := halves b in count_true (orv xs zs).
Definition bsf_wt_rows (bs : list bsf) : nat := fold_right (fun b acc => bsf_wt b + acc) 0 bs.

(* ground truth: single-qubit Paulis anticommute iff both are non-identity and differ *)
Definition anti1 (p q : pl) : bool :=
  match p, q with pI, _ | _, pI => false | pX, pX | pY, pY | pZ, pZ => false | _, _ => true end.
Fixpoint anticommutes (s t : pstr) : bool :=
  match s, t with p :: s', q :: t' => xorb (anti1 p q) (anticommutes s' t') | _, _ => false end.
Definition commutes (s t : pstr) : bool := negb (anticommutes s t).

(* product of Paulis up to phase *)
Definition mul1 (p q : pl) : pl := letter (xorb (xbit p) (xbit q)) (xorb (zbit p) (zbit q)).
Fixpoint pmul (s t : pstr) : pstr :=
  match s, t with p :: s', q :: t' => mul1 p q :: pmul s' t' | _, _ => [] end.

Lemma half_double n : (n + n) / 2 = n.
Proof. replace (n + n) with (n * 2) by lia. apply Nat.div_mul. lia. Qed.

Lemma halves_app xs zs : length xs = length zs -> halves (xs ++ zs) = (xs, zs).
Proof.
  intros H. unfold halves. rewrite app_length, <- H, half_double.
  rewrite firstn_app, skipn_app, Nat.sub_diag, firstn_all, skipn_all. cbn. now rewrite app_nil_r.
Qed.
Lemma halves_to_bsf s : halves (to_bsf s) = (map xbit s, map zbit s).
Proof. unfold to_bsf. apply halves_app. now rewrite !map_length. Qed.

Lemma letters_to s : letters (map xbit s) (map zbit s) = s.
Proof. induction s as [|p s IH]; cbn; auto. rewrite IH. now destruct p. Qed.
Theorem of_to_bsf s : of_bsf (to_bsf s) = s.
Proof. unfold of_bsf. rewrite halves_to_bsf. apply letters_to. Qed.

Lemma to_letters xs : forall zs, length xs = length zs ->
  map xbit (letters xs zs) = xs /\ map zbit (letters xs zs) = zs.
Proof.
  induction xs as [|x xs IH]; intros [|z zs] H; cbn in *; try lia; auto.
  destruct (IH zs ltac:(lia)) as [E1 E2]. rewrite E1, E2. now destruct x, z.
Qed.
Lemma halves_lengths b : Nat.even (length b) = true ->
  length (fst (halves b)) = length (snd (halves b)) /\ fst (halves b) ++ snd (halves b) = b.
Proof.
  intros Hev. apply Nat.even_spec in Hev. destruct Hev as [m Hm]. unfold halves. cbn [fst snd].
  replace (length b / 2) with m by (rewrite Hm, Nat.mul_comm, Nat.div_mul; lia).
  rewrite firstn_length, skipn_length, firstn_skipn. split; [lia|reflexivity].
Qed.
Theorem to_of_bsf b : Nat.even (length b) = true -> to_bsf (of_bsf b) = b.
Proof.
  intros Hev. destruct (halves_lengths b Hev) as [HL HA]. unfold of_bsf, to_bsf.
  destruct (halves b) as [xs zs]. cbn [fst snd] in *.
  destruct (to_letters xs zs HL) as [E1 E2]. now rewrite E1, E2.
Qed.
Theorem to_bsf_inj s t : to_bsf s = to_bsf t -> s = t.
Proof. intros H. rewrite <- (of_to_bsf s), <- (of_to_bsf t). now rewrite H. Qed.
Theorem of_to_bsf_list ss : of_bsf_list (to_bsf_list ss) = ss.
Proof. unfold of_bsf_list, to_bsf_list. rewrite map_map. rewrite <- (map_id ss) at 2. apply map_ext, of_to_bsf. Qed.
Theorem to_of_bsf_list bs : Forall (fun b => Nat.even (length b) = true) bs -> to_bsf_list (of_bsf_list bs) = bs.
Proof. unfold to_bsf_list, of_bsf_list. induction 1 as [|b bs Hb _ IH]; cbn [map]; auto. rewrite IH. now rewrite (to_of_bsf b Hb). Qed.

Lemma to_bsf_length s : length (to_bsf s) = 2 * length s.
Proof. unfold to_bsf. rewrite app_length, !map_length. lia. Qed.

Theorem bsf_wt_to_bsf s : bsf_wt (to_bsf s) = pauli_wt s.
Proof.
  unfold bsf_wt. rewrite halves_to_bsf. induction s as [|p s IH]; cbn; auto. rewrite IH. now destruct p.
Qed.
Theorem bsf_wt_rows_to_bsf ss : bsf_wt_rows (to_bsf_list ss) = pauli_wt_list ss.
Proof. induction ss as [|s ss IH]; auto. cbn [to_bsf_list map bsf_wt_rows fold_right pauli_wt_list]. rewrite bsf_wt_to_bsf. f_equal. exact IH. Qed.

Lemma xbit_letter x z : xbit (letter x z) = x. Proof. now destruct x, z. Qed.
Lemma zbit_letter x z : zbit (letter x z) = z. Proof. now destruct x, z. Qed.
Lemma map_xbit_pmul s : forall t, map xbit (pmul s t) = xorv (map xbit s) (map xbit t).
Proof. induction s as [|p s IH]; intros [|q t]; cbn; auto. unfold mul1. now rewrite IH, xbit_letter. Qed.
Lemma map_zbit_pmul s : forall t, map zbit (pmul s t) = xorv (map zbit s) (map zbit t).
Proof. induction s as [|p s IH]; intros [|q t]; cbn; auto. unfold mul1. now rewrite IH, zbit_letter. Qed.
Theorem to_bsf_pmul s t : length s = length t -> to_bsf (pmul s t) = xorv (to_bsf s) (to_bsf t).
Proof.
  intros H. unfold to_bsf. rewrite xorv_app by now rewrite !map_length.
  now rewrite map_xbit_pmul, map_zbit_pmul.
Qed.
