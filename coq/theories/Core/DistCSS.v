(* Core/DistCSS.v — distance lower bound for CSS codes by enumerating X-only and Z-only operators:
   if every X-only and every Z-only normalizer element of weight < d is a stabilizer product, then so is
   every normalizer element of weight < d (split v = (x|0) + (0|z); both parts stay in the normalizer and
   are no heavier).  No classical reasoning. *)
From Coq Require Import Arith List Bool Lia.
From QV Require Import Core.Bits Core.Pauli Core.Symp Core.Span Core.Rank Core.Dist.
Import ListNotations.

(* all bit vectors of length k with exactly w ones *)
Fixpoint bitvecs (k w : nat) : list bsf :=
  match k with
  | O => match w with O => [[]] | S _ => [] end
  | S k' => map (cons false) (bitvecs k' w) ++ match w with O => [] | S w' => map (cons true) (bitvecs k' w') end
  end.
Lemma bitvecs_spec k : forall w v, In v (bitvecs k w) <-> length v = k /\ count_true v = w.
Proof.
  induction k as [|k IH]; intros w v; cbn [bitvecs].
  - destruct w; cbn; split.
    + intros [<-|[]]; auto. + intros [H1 H2]. destruct v; [auto|discriminate].
    + intros []. + intros [H1 H2]. destruct v; discriminate.
  - rewrite in_app_iff, in_map_iff. split.
    + intros [(t & <- & Ht)|H].
      * apply IH in Ht. cbn. lia.
      * destruct w as [|w]; [destruct H|]. apply in_map_iff in H. destruct H as (t & <- & Ht).
        apply IH in Ht. cbn. lia.
    + intros [H1 H2]. destruct v as [|b t]; [discriminate|]. cbn in H1, H2. destruct b; cbn in H2.
      * right. destruct w; [lia|]. apply in_map. apply IH. lia.
      * left. exists t. split; auto. apply IH. lia.
Qed.

Definition xpart (n : nat) (v : bsf) : bsf := firstn n v ++ zeros n.
Definition zpart (n : nat) (v : bsf) : bsf := zeros n ++ skipn n v.
Definition x_type (n : nat) (s : bsf) : bool := is_zero (skipn n s).
Definition z_type (n : nat) (s : bsf) : bool := is_zero (firstn n s).
Definition css (n : nat) (stabs : list bsf) : bool := forallb (fun s => x_type n s || z_type n s) stabs.

Lemma is_zero_zeros v : is_zero v = true -> v = zeros (length v).
Proof. unfold is_zero, zeros. induction v as [|x v IH]; cbn; auto. destruct x; cbn; [discriminate|]. intros H. now rewrite <- IH. Qed.
Lemma halves_2n n v : length v = 2 * n -> halves v = (firstn n v, skipn n v).
Proof. intros H. unfold halves. rewrite H. replace (2 * n / 2) with n by (rewrite Nat.mul_comm, Nat.div_mul; lia). reflexivity. Qed.
Lemma bsp_split n a b : length a = 2 * n -> length b = 2 * n ->
  bsp a b = xorb (dot (skipn n a) (firstn n b)) (dot (firstn n a) (skipn n b)).
Proof.
  intros Ha Hb. unfold bsp, swap_halves. rewrite (halves_2n n a Ha).
  rewrite <- (firstn_skipn n b) at 1. apply dot_app. rewrite skipn_length, firstn_length. lia.
Qed.
Lemma firstn_xpart n v : length v = 2 * n -> firstn n (xpart n v) = firstn n v /\ skipn n (xpart n v) = zeros n.
Proof.
  intros H. unfold xpart. assert (L : length (firstn n v) = n) by (rewrite firstn_length; lia). split.
  - rewrite firstn_app, L, Nat.sub_diag. cbn. rewrite app_nil_r. rewrite <- L at 1. apply firstn_all.
  - rewrite skipn_app, L, Nat.sub_diag. cbn. rewrite <- L at 1. now rewrite skipn_all.
Qed.
Lemma firstn_zpart n v : length v = 2 * n -> firstn n (zpart n v) = zeros n /\ skipn n (zpart n v) = skipn n v.
Proof.
  intros H. unfold zpart. assert (L : length (zeros n) = n) by apply zeros_length. split.
  - rewrite firstn_app, L, Nat.sub_diag. cbn. rewrite app_nil_r. rewrite <- L at 1. apply firstn_all.
  - rewrite skipn_app, L, Nat.sub_diag. cbn. rewrite <- L at 1. now rewrite skipn_all.
Qed.
Lemma xpart_length n v : length v = 2 * n -> length (xpart n v) = 2 * n.
Proof. intros H. unfold xpart. rewrite app_length, firstn_length, zeros_length. lia. Qed.
Lemma zpart_length n v : length v = 2 * n -> length (zpart n v) = 2 * n.
Proof. intros H. unfold zpart. rewrite app_length, skipn_length, zeros_length. lia. Qed.
Lemma parts_xor n v : length v = 2 * n -> xorv (xpart n v) (zpart n v) = v.
Proof.
  intros H. unfold xpart, zpart. rewrite xorv_app by (rewrite firstn_length, zeros_length; lia).
  assert (L1 : length (firstn n v) = n) by (rewrite firstn_length; lia).
  assert (L2 : length (skipn n v) = n) by (rewrite skipn_length; lia).
  rewrite <- L1 at 2. rewrite xorv_zeros_r. rewrite xorv_zeros_l by exact L2. apply firstn_skipn.
Qed.

Lemma parts_normalizer n stabs v : length v = 2 * n -> rowlen (2 * n) stabs -> css n stabs = true ->
  normalizer stabs v -> normalizer stabs (xpart n v) /\ normalizer stabs (zpart n v).
Proof.
  intros Hv Hr Hc Hn. unfold css in Hc. rewrite forallb_forall in Hc.
  assert (G : forall s, In s stabs -> bsp (xpart n v) s = false /\ bsp (zpart n v) s = false).
  { intros s Hs. pose proof (proj1 (Forall_forall _ _) Hr s Hs) as Ls. cbn beta in Ls.
    specialize (Hn s Hs). rewrite (bsp_split n) in Hn by auto.
    rewrite (bsp_split n (xpart n v)) by (auto using xpart_length).
    rewrite (bsp_split n (zpart n v)) by (auto using zpart_length).
    destruct (firstn_xpart n v Hv) as (X1 & X2), (firstn_zpart n v Hv) as (Z1 & Z2).
    rewrite X1, X2, Z1, Z2, !dot_zeros_l. cbn [xorb].
    specialize (Hc s Hs). apply orb_true_iff in Hc. destruct Hc as [Hx|Hz].
    - unfold x_type in Hx. apply is_zero_zeros in Hx. rewrite Hx in *. rewrite dot_zeros_r in *.
      rewrite xorb_false_r in Hn. rewrite Hn. auto.
    - unfold z_type in Hz. apply is_zero_zeros in Hz. rewrite Hz in *. rewrite dot_zeros_r in *.
      rewrite xorb_false_l in Hn. rewrite Hn. auto. }
  split; intros s Hs; apply G; auto.
Qed.

Lemma count_true_orv_l x : forall z, length x = length z -> count_true x <= count_true (orv x z).
Proof. induction x as [|a x IH]; intros [|b z] H; cbn in *; try lia. specialize (IH z ltac:(lia)). destruct a, b; cbn; lia. Qed.
Lemma count_true_orv_r x : forall z, length x = length z -> count_true z <= count_true (orv x z).
Proof. induction x as [|a x IH]; intros [|b z] H; cbn in *; try lia. specialize (IH z ltac:(lia)). destruct a, b; cbn; lia. Qed.
Lemma orv_zeros_r x : orv x (zeros (length x)) = x.
Proof. unfold zeros. induction x as [|a x IH]; cbn; auto. now rewrite IH, orb_false_r. Qed.
Lemma orv_zeros_l x : orv (zeros (length x)) x = x.
Proof. unfold zeros. induction x as [|a x IH]; cbn; auto. now rewrite IH. Qed.
Lemma parts_weight n v : length v = 2 * n ->
  bsf_wt (xpart n v) = count_true (firstn n v) /\ bsf_wt (zpart n v) = count_true (skipn n v) /\
  count_true (firstn n v) <= bsf_wt v /\ count_true (skipn n v) <= bsf_wt v.
Proof.
  intros H. assert (L1 : length (firstn n v) = n) by (rewrite firstn_length; lia).
  assert (L2 : length (skipn n v) = n) by (rewrite skipn_length; lia).
  unfold bsf_wt. rewrite (halves_2n n v H), (halves_2n n _ (xpart_length n v H)), (halves_2n n _ (zpart_length n v H)).
  destruct (firstn_xpart n v H) as (X1 & X2), (firstn_zpart n v H) as (Z1 & Z2). rewrite X1, X2, Z1, Z2.
  repeat split.
  - rewrite <- L1 at 2. now rewrite orv_zeros_r.
  - rewrite <- L2 at 1. now rewrite orv_zeros_l.
  - apply count_true_orv_l. lia.
  - apply count_true_orv_r. lia.
Qed.

Definition css_lower_check (n : nat) (stabs : list bsf) (d : nat) : bool :=
  forallb (fun r => length r =? 2 * n) stabs && css n stabs &&
  let basis := basis_of stabs in
  forallb (fun w =>
    forallb (fun x =>
      (let v := x ++ zeros n in if normalizerb stabs v then in_spanb_pre basis (2 * n) stabs v else true) &&
      (let v := zeros n ++ x in if normalizerb stabs v then in_spanb_pre basis (2 * n) stabs v else true))
      (bitvecs n w)) (seq 0 d).

Theorem css_lower_check_sound n stabs d : css_lower_check n stabs d = true ->
  forall v, nontrivial n stabs v -> d <= bsf_wt v.
Proof.
  unfold css_lower_check. rewrite !andb_true_iff. intros ((Hlen & Hcss) & Hall) v (Hl & Hn & Hs).
  destruct (le_lt_dec d (bsf_wt v)) as [|Hlt]; [assumption|exfalso].
  pose proof (forallb_rowlen _ _ Hlen) as Hr. cbn zeta in Hall. rewrite forallb_forall in Hall.
  destruct (parts_normalizer n stabs v Hl Hr Hcss Hn) as (Nx & Nz).
  destruct (parts_weight n v Hl) as (Wx & Wz & Lx & Lz).
  assert (L1 : length (firstn n v) = n) by (rewrite firstn_length; lia).
  assert (L2 : length (skipn n v) = n) by (rewrite skipn_length; lia).
  apply Hs. rewrite <- (parts_xor n v Hl). apply in_spanP_xorv; [exact Hr| |].
  - specialize (Hall (count_true (firstn n v)) ltac:(apply in_seq; lia)). rewrite forallb_forall in Hall.
    specialize (Hall (firstn n v) ltac:(apply bitvecs_spec; auto)). apply andb_true_iff in Hall. destruct Hall as [H _].
    fold (xpart n v) in H. apply normalizerb_spec in Nx. rewrite Nx in H. eapply in_spanb_pre_sound; eauto.
  - specialize (Hall (count_true (skipn n v)) ltac:(apply in_seq; lia)). rewrite forallb_forall in Hall.
    specialize (Hall (skipn n v) ltac:(apply bitvecs_spec; auto)). apply andb_true_iff in Hall. destruct Hall as [_ H].
    fold (zpart n v) in H. apply normalizerb_spec in Nz. rewrite Nz in H. eapply in_spanb_pre_sound; eauto.
Qed.

Definition css_distance_check (n : nat) (stabs : list bsf) (d : nat) (v l : bsf) : bool :=
  upper_check n stabs d v l && css_lower_check n stabs d.
Theorem css_distance_check_sound n stabs d v l : css_distance_check n stabs d v l = true -> is_distance n stabs d.
Proof.
  unfold css_distance_check. rewrite andb_true_iff. intros (H1 & H2). split.
  - exists v. now apply upper_check_sound with (l := l).
  - now apply css_lower_check_sound.
Qed.
