(* Core/Bits.v — bit vectors as lists of booleans, XOR, dot product mod 2,
   and codecs used by the in-kernel correspondence files. *)
From Coq Require Import Arith List Bool Lia NArith.
Import ListNotations.

Notation bsf := (list bool).

Lemma nth_map_in {A B} (f : A -> B) l i d d' : i < length l -> nth i (map f l) d = f (nth i l d').
Proof. revert i. induction l as [|a l IH]; intros [|i] H; cbn in *; try lia; auto. apply IH. lia. Qed.


Fixpoint xorv (a b : bsf) : bsf :=
  match a, b with x :: a', y :: b' => xorb x y :: xorv a' b' | _, _ => [] end.
Fixpoint dot (a b : bsf) : bool :=
  match a, b with x :: a', y :: b' => xorb (x && y) (dot a' b') | _, _ => false end.
Definition zeros (m : nat) : bsf := repeat false m.
Definition xsum (m : nat) (rows : list bsf) : bsf := fold_right xorv (zeros m) rows.
Definition b2n (b : bool) : nat := if b then 1 else 0.
Fixpoint count_true (a : bsf) : nat := match a with [] => 0 | x :: r => b2n x + count_true r end.
Fixpoint orv (a b : bsf) : bsf :=
  match a, b with x :: a', y :: b' => orb x y :: orv a' b' | _, _ => [] end.
Definition is_zero (a : bsf) : bool := forallb negb a.
Fixpoint beqv (a b : bsf) : bool :=
  match a, b with
  | [], [] => true
  | x :: a', y :: b' => Bool.eqb x y && beqv a' b'
  | _, _ => false
  end.

Lemma beqv_spec a : forall b, beqv a b = true <-> a = b.
Proof.
  induction a as [|x a IH]; intros [|y b]; cbn; split; intros H; try discriminate; auto.
  - apply andb_true_iff in H. destruct H as [H1 H2]. apply eqb_prop in H1. apply IH in H2. now subst.
  - injection H as -> ->. rewrite eqb_reflx. cbn. now apply IH.
Qed.

Lemma xorv_comm a : forall b, xorv a b = xorv b a.
Proof. induction a as [|x a IH]; intros [|y b]; cbn; auto. now rewrite IH, xorb_comm. Qed.
Lemma xorv_assoc a : forall b c, xorv (xorv a b) c = xorv a (xorv b c).
Proof. induction a as [|x a IH]; intros [|y b] [|z c]; cbn; auto. now rewrite IH, xorb_assoc. Qed.
Lemma xorv_length a : forall b, length a = length b -> length (xorv a b) = length a.
Proof. induction a as [|x a IH]; intros [|y b] H; cbn in *; try lia. now rewrite IH by lia. Qed.
Lemma xorv_zeros_r a : xorv a (zeros (length a)) = a.
Proof. unfold zeros. induction a as [|x a IH]; cbn; auto. now rewrite IH, xorb_false_r. Qed.
Lemma xorv_zeros_l k a : length a = k -> xorv (zeros k) a = a.
Proof. intros <-. rewrite xorv_comm. apply xorv_zeros_r. Qed.
Lemma xorv_self a : xorv a a = zeros (length a).
Proof. unfold zeros. induction a as [|x a IH]; cbn; auto. now rewrite IH, xorb_nilpotent. Qed.
Lemma xorv_zz k : xorv (zeros k) (zeros k) = zeros k.
Proof. unfold zeros. induction k; cbn; auto. now rewrite IHk. Qed.
Lemma zeros_length k : length (zeros k) = k.
Proof. apply repeat_length. Qed.
Lemma xorv_app a1 : forall b1 a2 b2, length a1 = length b1 ->
  xorv (a1 ++ a2) (b1 ++ b2) = xorv a1 b1 ++ xorv a2 b2.
Proof. induction a1 as [|x a IH]; intros [|y b] a2 b2 H; cbn in *; try lia; auto. now rewrite IH by lia. Qed.
Lemma xorv_cancel_l a b : length a = length b -> xorv a (xorv a b) = b.
Proof. intros H. rewrite <- xorv_assoc, xorv_self, xorv_zeros_l; auto. Qed.

Lemma dot_comm a : forall b, dot a b = dot b a.
Proof. induction a as [|x a IH]; intros [|y b]; cbn; auto. now rewrite IH, andb_comm. Qed.
Lemma dot_xorv_l a : forall b c, length a = length b ->
  dot (xorv a b) c = xorb (dot a c) (dot b c).
Proof. induction a as [|x a IH]; intros [|y b] [|z c] H; cbn in *; try lia; auto.
  rewrite IH by lia. destruct x, y, z, (dot a c), (dot b c); reflexivity. Qed.
Lemma dot_xorv_r c a b : length a = length b ->
  dot c (xorv a b) = xorb (dot c a) (dot c b).
Proof. intros H. rewrite dot_comm, dot_xorv_l by auto. now rewrite (dot_comm a), (dot_comm b). Qed.
Lemma dot_app a1 : forall b1 a2 b2, length a1 = length b1 ->
  dot (a1 ++ a2) (b1 ++ b2) = xorb (dot a1 b1) (dot a2 b2).
Proof. induction a1 as [|x a IH]; intros [|y b] a2 b2 H; cbn in *; try lia; [now destruct (dot a2 b2)|].
  rewrite IH by lia. now rewrite xorb_assoc. Qed.
Lemma dot_zeros_l k b : dot (zeros k) b = false.
Proof. unfold zeros. revert b. induction k as [|k IH]; intros [|y b]; cbn; auto. now rewrite IH. Qed.
Lemma dot_zeros_r k a : dot a (zeros k) = false.
Proof. rewrite dot_comm. apply dot_zeros_l. Qed.

Lemma xsum_cons k r rows : xsum k (r :: rows) = xorv r (xsum k rows).
Proof. reflexivity. Qed.
Lemma xsum_len m rows : Forall (fun r => length r = m) rows -> length (xsum m rows) = m.
Proof. induction 1 as [|r rows Hr _ IH]; [apply repeat_length|]. change (length (xorv r (xsum m rows)) = m).
  rewrite xorv_length; [exact Hr|now rewrite IH]. Qed.
Lemma xsum_app k a b : Forall (fun r => length r = k) a -> Forall (fun r => length r = k) b ->
  xsum k (a ++ b) = xorv (xsum k a) (xsum k b).
Proof.
  induction 1 as [|r a Hr _ IH]; intros Hb.
  - change (xsum k b = xorv (zeros k) (xsum k b)). now rewrite xorv_zeros_l by (apply xsum_len; auto).
  - change (xorv r (xsum k (a ++ b)) = xorv (xorv r (xsum k a)) (xsum k b)). rewrite IH by auto. now rewrite xorv_assoc.
Qed.
Lemma xsum_rev k a : Forall (fun r => length r = k) a -> xsum k (rev a) = xsum k a.
Proof.
  induction 1 as [|r a Hr Ha IH]; [reflexivity|]. cbn [rev].
  rewrite xsum_app; [|now apply Forall_rev|repeat constructor; auto]. rewrite IH.
  change (xsum k [r]) with (xorv r (zeros k)). rewrite <- Hr at 2. rewrite xorv_zeros_r. rewrite xsum_cons. apply xorv_comm.
Qed.

(* ---- codecs for the correspondence files: a bit vector of known length
   is written as a hexadecimal N literal, most significant bit first ---- *)
Fixpoint bits_of_pos_rev (p : positive) : bsf :=   (* least significant first *)
  match p with xH => [true] | xO q => false :: bits_of_pos_rev q | xI q => true :: bits_of_pos_rev q end.
Definition bits_of_N_rev (n : N) : bsf := match n with N0 => [] | Npos p => bits_of_pos_rev p end.
Fixpoint pad_to (len : nat) (l : bsf) : bsf :=   (* l is LSB first; extend with false to len *)
  match len with O => [] | S k => match l with [] => false :: pad_to k [] | x :: r => x :: pad_to k r end end.
Definition bits_of_N (len : nat) (n : N) : bsf := rev (pad_to len (bits_of_N_rev n)).
Fixpoint N_of_bits_acc (acc : N) (l : bsf) : N :=
  match l with [] => acc | b :: r => N_of_bits_acc (N.add (N.double acc) (if b then 1%N else 0%N)) r end.
Definition N_of_bits (l : bsf) : N := N_of_bits_acc 0%N l.
