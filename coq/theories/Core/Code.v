(* Core/Code.v — stabilizer codes as binary symplectic matrices; model of
   StabilizerCode.logicals / validate (model.py:95-157) and of the DecodeResult guard. *)
From Coq Require Import Arith List Bool Lia.
From QV Require Import Core.Bits Core.Pauli Core.Symp.
Import ListNotations.

Record code := mkCode { stabs : list bsf; lxs : list bsf; lzs : list bsf }.
(* np.vstack((logical_xs, logical_zs)) *)
Definition logicals (c : code) : list bsf := lxs c ++ lzs c.

(* bsp(A, B.T) for matrices given by rows *)
Definition gram (A B : list bsf) : list bsf := map (fun a => map (fun b => bsp a b) B) A.
Definition all_zero (M : list bsf) : bool := forallb is_zero M.
(* hstack((i2, i1)) with i1, i2 = hsplit(identity(m), 2) *)
Definition twisted (m : nat) : list bsf :=
  map (fun i => map (fun j => (j =? i + m / 2) || (i =? j + m / 2)) (seq 0 m)) (seq 0 m).
Fixpoint beqm (A B : list bsf) : bool :=
  match A, B with [], [] => true | a :: A', b :: B' => beqv a b && beqm A' B' | _, _ => false end.

Inductive vresult := VOk | VErrStab | VErrStabLog | VErrSplit | VErrLog.
Definition validate (c : code) : vresult :=
  if negb (all_zero (gram (stabs c) (stabs c))) then VErrStab
  else if negb (all_zero (gram (stabs c) (logicals c))) then VErrStabLog
  else if negb (Nat.even (length (logicals c))) then VErrSplit   (* np.hsplit of an odd identity raises *)
  else if negb (beqm (gram (logicals c) (logicals c)) (twisted (length (logicals c)))) then VErrLog
  else VOk.
Definition validb (c : code) : bool := match validate c with VOk => true | _ => false end.

(* DecodeResult.__init__ guard *)
Definition decode_result_ok {A B} (success : option A) (recovery : option B) : bool :=
  match success, recovery with None, None => false | _, _ => true end.

(* ---------- specification ---------- *)
Lemma beqm_spec A : forall B, beqm A B = true <-> A = B.
Proof.
  induction A as [|a A IH]; intros [|b B]; cbn; split; intros H; try discriminate; auto.
  - apply andb_true_iff in H. destruct H as [H1 H2]. apply beqv_spec in H1. apply IH in H2. now subst.
  - injection H as -> ->. apply andb_true_iff. split; [now apply beqv_spec|now apply IH].
Qed.
Lemma is_zero_spec v : is_zero v = true <-> forall x, In x v -> x = false.
Proof.
  unfold is_zero. rewrite forallb_forall. split; intros H x Hx; specialize (H x Hx); destruct x; auto; discriminate.
Qed.
Lemma all_zero_gram A B : all_zero (gram A B) = true <-> forall a b, In a A -> In b B -> bsp a b = false.
Proof.
  unfold all_zero, gram. rewrite forallb_forall. split.
  - intros H a b Ha Hb. specialize (H _ (in_map _ _ _ Ha)). rewrite is_zero_spec in H.
    apply H. now apply (in_map (fun b => bsp a b)).
  - intros H r Hr. apply in_map_iff in Hr. destruct Hr as (a & <- & Ha). apply is_zero_spec.
    intros x Hx. apply in_map_iff in Hx. destruct Hx as (b & <- & Hb). now apply H.
Qed.

Lemma map_seq_nth {A B} (f : A -> B) (l : list A) d : map f l = map (fun i => f (nth i l d)) (seq 0 (length l)).
Proof.
  induction l as [|a l IH]; cbn; auto. f_equal. rewrite <- seq_shift, map_map. exact IH.
Qed.
Lemma gram_index L : gram L L = map (fun i => map (fun j => bsp (nth i L []) (nth j L [])) (seq 0 (length L))) (seq 0 (length L)).
Proof.
  unfold gram. rewrite (map_seq_nth _ L []). apply map_ext. intros i. now rewrite (map_seq_nth _ L []).
Qed.
Lemma map_seq_eq {B} (f g : nat -> B) m : map f (seq 0 m) = map g (seq 0 m) <-> forall i, i < m -> f i = g i.
Proof.
  rewrite map_ext_in_iff. split; intros H i Hi; apply H; [apply in_seq; lia|apply in_seq in Hi; lia].
Qed.
Definition twist_rel (m i j : nat) : bool := (j =? i + m / 2) || (i =? j + m / 2).
Lemma gram_twisted L : gram L L = twisted (length L) <->
  forall i j, i < length L -> j < length L -> bsp (nth i L []) (nth j L []) = twist_rel (length L) i j.
Proof.
  rewrite gram_index. unfold twisted. rewrite map_seq_eq. split.
  - intros H i j Hi Hj. specialize (H i Hi). rewrite map_seq_eq in H. now apply H.
  - intros H i Hi. apply map_seq_eq. intros j Hj. now apply H.
Qed.

Theorem validate_ok_iff c : validate c = VOk <->
  (forall s s', In s (stabs c) -> In s' (stabs c) -> bsp s s' = false) /\
  (forall s l, In s (stabs c) -> In l (logicals c) -> bsp s l = false) /\
  Nat.even (length (logicals c)) = true /\
  (forall i j, i < length (logicals c) -> j < length (logicals c) ->
     bsp (nth i (logicals c) []) (nth j (logicals c) []) = twist_rel (length (logicals c)) i j).
Proof.
  unfold validate. rewrite <- all_zero_gram, <- all_zero_gram, <- gram_twisted, <- beqm_spec.
  destruct (all_zero (gram (stabs c) (stabs c))); cbn; [|split; [discriminate|intros (H & _); discriminate]].
  destruct (all_zero (gram (stabs c) (logicals c))); cbn; [|split; [discriminate|intros (_ & H & _); discriminate]].
  destruct (Nat.even (length (logicals c))); cbn; [|split; [discriminate|intros (_ & _ & H & _); discriminate]].
  destruct (beqm _ _); cbn; [tauto|split; [discriminate|intros (_ & _ & _ & H); discriminate]].
Qed.

(* which check fails first *)
Theorem validate_first_failure c :
  (validate c = VErrStab <-> exists s s', In s (stabs c) /\ In s' (stabs c) /\ bsp s s' = true) /\
  (validate c = VErrStabLog <->
     (forall s s', In s (stabs c) -> In s' (stabs c) -> bsp s s' = false) /\
     exists s l, In s (stabs c) /\ In l (logicals c) /\ bsp s l = true).
Proof.
  unfold validate. split.
  - destruct (all_zero (gram (stabs c) (stabs c))) eqn:E; cbn [negb].
    + split.
      * repeat match goal with |- context [if ?b then _ else _] => destruct b end; discriminate.
      * intros (s & s' & Hs & Hs' & H). pose proof (proj1 (all_zero_gram _ _) E s s' Hs Hs'). congruence.
    + split; auto. intros _.
      assert (H : ~ forall a b, In a (stabs c) -> In b (stabs c) -> bsp a b = false)
        by (rewrite <- all_zero_gram; congruence).
      clear E. unfold gram in *.
      assert (Hex : existsb (fun a => existsb (fun b => bsp a b) (stabs c)) (stabs c) = true).
      { destruct (existsb _ _) eqn:Ex; auto. exfalso. apply H. intros a b Ha Hb.
        destruct (bsp a b) eqn:Eab; auto.
        assert (existsb (fun a => existsb (fun b => bsp a b) (stabs c)) (stabs c) = true).
        { apply existsb_exists. exists a. split; auto. apply existsb_exists. exists b. auto. }
        congruence. }
      apply existsb_exists in Hex. destruct Hex as (a & Ha & Hex). apply existsb_exists in Hex.
      destruct Hex as (b & Hb & Hab). exists a, b. auto.
  - destruct (all_zero (gram (stabs c) (stabs c))) eqn:E; cbn [negb].
    + destruct (all_zero (gram (stabs c) (logicals c))) eqn:E2; cbn [negb].
      * split.
        -- repeat match goal with |- context [if ?b then _ else _] => destruct b end; discriminate.
        -- intros (_ & s & l & Hs & Hl & H). pose proof (proj1 (all_zero_gram _ _) E2 s l Hs Hl). congruence.
      * split; auto. intros _. split; [now apply all_zero_gram|].
        assert (Hex : existsb (fun a => existsb (fun b => bsp a b) (logicals c)) (stabs c) = true).
        { destruct (existsb _ _) eqn:Ex; auto. exfalso.
          assert (all_zero (gram (stabs c) (logicals c)) = true); [|congruence].
          apply all_zero_gram. intros a b Ha Hb. destruct (bsp a b) eqn:Eab; auto.
          assert (existsb (fun a => existsb (fun b => bsp a b) (logicals c)) (stabs c) = true).
          { apply existsb_exists. exists a. split; auto. apply existsb_exists. exists b. auto. }
          congruence. }
        apply existsb_exists in Hex. destruct Hex as (a & Ha & Hex). apply existsb_exists in Hex.
        destruct Hex as (b & Hb & Hab). exists a, b. auto.
    + split; [discriminate|]. intros (H & _). apply all_zero_gram in H. congruence.
Qed.

(* the canonical commutation relations in X_i / Z_j form, for k X-logicals and k Z-logicals *)
Definition canonical (xs zs : list bsf) : Prop :=
  forall i j, i < length xs -> j < length xs ->
    bsp (nth i xs []) (nth j xs []) = false /\ bsp (nth i zs []) (nth j zs []) = false /\
    bsp (nth i xs []) (nth j zs []) = (i =? j) /\ bsp (nth i zs []) (nth j xs []) = (i =? j).

Theorem twist_canonical xs zs : length xs = length zs ->
  ((forall i j, i < length (xs ++ zs) -> j < length (xs ++ zs) ->
      bsp (nth i (xs ++ zs) []) (nth j (xs ++ zs) []) = twist_rel (length (xs ++ zs)) i j)
   <-> canonical xs zs).
Proof.
  intros HL. set (k := length xs). assert (Hm : length (xs ++ zs) = k + k) by (rewrite app_length; subst k; lia).
  rewrite Hm. unfold twist_rel. rewrite half_double. split.
  - intros H i j Hi Hj. fold k in Hi, Hj. repeat split.
    + specialize (H i j ltac:(lia) ltac:(lia)). rewrite !app_nth1 in H by (fold k; lia). rewrite H.
      apply orb_false_iff; split; apply Nat.eqb_neq; lia.
    + specialize (H (k + i) (k + j) ltac:(lia) ltac:(lia)). rewrite !app_nth2 in H by (fold k; lia). fold k in H.
      replace (k + i - k) with i in H by lia. replace (k + j - k) with j in H by lia. rewrite H.
      apply orb_false_iff; split; apply Nat.eqb_neq; lia.
    + specialize (H i (k + j) ltac:(lia) ltac:(lia)). rewrite app_nth1, app_nth2 in H by (fold k; lia). fold k in H.
      replace (k + j - k) with j in H by lia. rewrite H.
      destruct (Nat.eqb_spec i j) as [->|Hn].
      * apply orb_true_iff. left. apply Nat.eqb_eq. lia.
      * apply orb_false_iff; split; apply Nat.eqb_neq; lia.
    + specialize (H (k + i) j ltac:(lia) ltac:(lia)). rewrite app_nth2, app_nth1 in H by (fold k; lia). fold k in H.
      replace (k + i - k) with i in H by lia. rewrite H.
      destruct (Nat.eqb_spec i j) as [->|Hn].
      * apply orb_true_iff. right. apply Nat.eqb_eq. lia.
      * apply orb_false_iff; split; apply Nat.eqb_neq; lia.
  - intros H i j Hi Hj.
    destruct (lt_dec i k) as [Hik|Hik], (lt_dec j k) as [Hjk|Hjk].
    + rewrite !app_nth1 by (fold k; lia). destruct (H i j Hik Hjk) as (-> & _).
      symmetry. apply orb_false_iff; split; apply Nat.eqb_neq; lia.
    + rewrite app_nth1, app_nth2 by (fold k; lia). fold k.
      destruct (H i (j - k) Hik ltac:(lia)) as (_ & _ & -> & _).
      destruct (Nat.eqb_spec i (j - k)) as [E|Hn]; symmetry.
      * apply orb_true_iff. left. apply Nat.eqb_eq. lia.
      * apply orb_false_iff; split; apply Nat.eqb_neq; lia.
    + rewrite app_nth2, app_nth1 by (fold k; lia). fold k.
      destruct (H (i - k) j ltac:(lia) Hjk) as (_ & _ & _ & ->).
      destruct (Nat.eqb_spec (i - k) j) as [E|Hn]; symmetry.
      * apply orb_true_iff. right. apply Nat.eqb_eq. lia.
      * apply orb_false_iff; split; apply Nat.eqb_neq; lia.
    + rewrite !app_nth2 by (fold k; lia). fold k.
      destruct (H (i - k) (j - k) ltac:(lia) ltac:(lia)) as (_ & -> & _).
      symmetry. apply orb_false_iff; split; apply Nat.eqb_neq; lia.
Qed.

Theorem validate_iff_canonical c : length (lxs c) = length (lzs c) ->
  (validate c = VOk <->
   (forall s s', In s (stabs c) -> In s' (stabs c) -> bsp s s' = false) /\
   (forall s l, In s (stabs c) -> In l (logicals c) -> bsp s l = false) /\
   canonical (lxs c) (lzs c)).
Proof.
  intros HL. rewrite validate_ok_iff. unfold logicals. rewrite <- (twist_canonical _ _ HL).
  assert (Hev : Nat.even (length (lxs c ++ lzs c)) = true).
  { rewrite app_length, <- HL. replace (length (lxs c) + length (lxs c)) with (2 * length (lxs c)) by lia.
    apply Nat.even_spec. now exists (length (lxs c)). }
  rewrite Hev. tauto.
Qed.
