(* Core/Rank.v — GF(2) independence and rank with sound, certificate-checking decision procedures.
   Independence certificate: dual vectors D with rows_i . D_j = [i = j] (ordinary dot product);
   how D is found (elimination on the transpose, via Core/Span.v) is irrelevant to soundness. *)
From Coq Require Import Arith List Bool Lia.
From QV Require Import Core.Bits Core.Span.
Import ListNotations.

Definition rowlen (n : nat) (l : list bsf) : Prop := Forall (fun r => length r = n) l.
Definition independent (n : nat) (rows : list bsf) : Prop :=
  forall cs, length cs = length rows -> lincomb n cs rows = zeros n -> cs = zeros (length rows).
(* rank: an independent subfamily of the rows that spans all of them *)
Definition rank_is (n : nat) (rows : list bsf) (k : nat) : Prop :=
  exists sub, incl sub rows /\ length sub = k /\ independent n sub /\ forall r, In r rows -> in_spanP n sub r.

(* ---- certificate checker ---- *)
Fixpoint dual_row_ok (r : bsf) (i : nat) (j : nat) (D : list bsf) : bool :=   (* r . D_j' = [i = j'] for j' >= j *)
  match D with [] => true | d :: D' => Bool.eqb (dot r d) (i =? j) && dual_row_ok r i (S j) D' end.
Fixpoint dual_ok_from (i : nat) (rows D : list bsf) : bool :=
  match rows with [] => true | r :: rows' => dual_row_ok r i 0 D && dual_ok_from (S i) rows' D end.
Definition dual_ok (rows D : list bsf) : bool := (length D =? length rows) && dual_ok_from 0 rows D.

Lemma dual_row_ok_spec r i D : forall j, dual_row_ok r i j D = true ->
  forall t, t < length D -> dot r (nth t D []) = (i =? j + t).
Proof.
  induction D as [|d D IH]; intros j H t Ht; cbn in *; [lia|].
  apply andb_true_iff in H. destruct H as [H1 H2]. apply eqb_prop in H1.
  destruct t as [|t]; [now rewrite Nat.add_0_r|].
  rewrite (IH (S j) H2 t) by lia. f_equal. lia.
Qed.
Lemma dual_ok_from_spec rows D : forall i, dual_ok_from i rows D = true ->
  forall s t, s < length rows -> t < length D -> dot (nth s rows []) (nth t D []) = (i + s =? t).
Proof.
  induction rows as [|r rows IH]; intros i H s t Hs Ht; cbn in *; [lia|].
  apply andb_true_iff in H. destruct H as [H1 H2].
  destruct s as [|s].
  - rewrite (dual_row_ok_spec _ _ _ _ H1 t Ht). now rewrite Nat.add_0_r.
  - rewrite (IH (S i) H2 s t) by lia. f_equal. lia.
Qed.

(* dot of a linear combination *)
Fixpoint csum (cs : list bool) (vals : list bool) : bool :=
  match cs, vals with c :: cs', v :: vals' => xorb (c && v) (csum cs' vals') | _, _ => false end.
Lemma dot_lincomb n d : forall cs rows, rowlen n rows ->
  dot (lincomb n cs rows) d = csum cs (map (fun r => dot r d) rows).
Proof.
  induction cs as [|c cs IH]; intros rows H; cbn [lincomb].
  - rewrite dot_zeros_l. destruct rows; reflexivity.
  - destruct rows as [|r rows]; cbn [map csum]; [apply dot_zeros_l|].
    inversion H as [|? ? Hr Hrows]; subst. destruct c; cbn [andb].
    + rewrite dot_xorv_l by (rewrite lincomb_length; auto). now rewrite IH.
    + rewrite IH by auto. now destruct (csum cs _).
Qed.
Lemma csum_unit cs : forall j vals, length vals = length cs ->
  (forall s, s < length cs -> nth s vals false = (j =? s)) -> csum cs vals = nth j cs false.
Proof.
  induction cs as [|c cs IH]; intros j vals HL H; cbn [csum].
  - destruct vals; destruct j; reflexivity.
  - destruct vals as [|v vals]; [cbn in HL; discriminate|]. cbn [length] in *.
    pose proof (H 0 ltac:(lia)) as H0. cbn [nth] in H0. subst v.
    destruct j as [|j].
    + cbn [Nat.eqb nth]. rewrite andb_true_r.
      assert (E : csum cs vals = false).
      { clear -H HL. assert (G : forall k, k < length cs -> nth k vals false = false).
        { intros k Hk. specialize (H (S k) ltac:(lia)). cbn in H. exact H. }
        assert (HL' : length vals = length cs) by lia. clear H HL. revert vals HL' G.
        induction cs as [|c' cs IH]; intros vals HL G; destruct vals as [|v vals]; cbn [csum]; auto.
        rewrite (G 0 ltac:(cbn; lia) : v = false). rewrite andb_false_r. cbn.
        rewrite IH; [reflexivity|cbn in HL; lia|]. intros k Hk. apply (G (S k)). cbn. lia. }
      rewrite E. now destruct c.
    + cbn [Nat.eqb nth]. rewrite andb_false_r. cbn. rewrite (IH j vals); [now destruct (nth j cs false)|lia|].
      intros s Hs. specialize (H (S s) ltac:(lia)). cbn in H. exact H.
Qed.

Theorem dual_ok_independent n rows D : rowlen n rows -> dual_ok rows D = true -> independent n rows.
Proof.
  intros Hr H. unfold dual_ok in H. apply andb_true_iff in H. destruct H as [HL H]. apply Nat.eqb_eq in HL.
  pose proof (dual_ok_from_spec _ _ 0 H) as S.
  intros cs Hcs Hz. apply nth_ext with (d := false) (d' := false).
  - now rewrite zeros_length.
  - intros j Hj. unfold zeros. rewrite nth_repeat.
    assert (E : dot (lincomb n cs rows) (nth j D []) = nth j cs false).
    { rewrite dot_lincomb by auto. apply csum_unit; [now rewrite map_length|].
      intros s Hs. rewrite (nth_map_in _ _ _ _ []) by lia. rewrite S by lia. cbn. apply Nat.eqb_sym. }
    rewrite Hz, dot_zeros_l in E. now symmetry.
Qed.

(* ---- computing the certificate: solve rows . x = e_j on the transpose with Span's elimination ---- *)
Definition columns (n : nat) (rows : list bsf) : list bsf :=
  map (fun j => map (fun r => nth j r false) rows) (seq 0 n).
Definition solve_with (basis : list bentry) (ncols : nat) (v : bsf) : option (list bool) :=
  let '(r, c) := reduce basis v (zeros ncols) in if is_zero r then Some c else None.
Fixpoint collect {A} (l : list (option A)) : option (list A) :=
  match l with [] => Some [] | Some a :: r => option_map (cons a) (collect r) | None :: _ => None end.
Definition duals (n : nat) (rows : list bsf) : option (list bsf) :=
  let cols := columns n rows in
  let basis := basis_of cols in
  let m := length rows in
  collect (map (fun j => solve_with basis n (unit_vec m j)) (seq 0 m)).
Definition indep_check (n : nat) (rows : list bsf) : bool :=
  forallb (fun r => length r =? n) rows &&
  match duals n rows with Some D => dual_ok rows D | None => false end.
Lemma forallb_rowlen n rows : forallb (fun r => length r =? n) rows = true -> rowlen n rows.
Proof. rewrite forallb_forall. intros H. apply Forall_forall. intros r Hr. apply Nat.eqb_eq. now apply H. Qed.
Theorem indep_check_sound n rows : indep_check n rows = true -> independent n rows.
Proof.
  unfold indep_check. intros H. apply andb_true_iff in H. destruct H as [H1 H2].
  destruct (duals n rows) as [D|]; [|discriminate]. eapply dual_ok_independent; eauto using forallb_rowlen.
Qed.

(* ---- rank: greedy independent subfamily, then both certificates ---- *)
Fixpoint greedy (n : nat) (kept : list bsf) (rows : list bsf) : list bsf :=
  match rows with
  | [] => kept
  | r :: rows' => if in_spanb n kept r then greedy n kept rows' else greedy n (kept ++ [r]) rows'
  end.
Lemma greedy_incl n rows : forall kept all, incl kept all -> incl rows all -> incl (greedy n kept rows) all.
Proof.
  induction rows as [|r rows IH]; intros kept all Hk Hr; cbn [greedy]; auto.
  assert (Hr' : incl rows all) by (intros x Hx; apply Hr; cbn; auto).
  destruct (in_spanb n kept r); apply IH; auto.
  intros x Hx. apply in_app_iff in Hx. destruct Hx as [Hx|[<-|[]]]; auto. apply Hr. cbn; auto.
Qed.
Definition rank_check (n : nat) (rows : list bsf) (k : nat) : bool :=
  let sub := greedy n [] rows in
  (length sub =? k) && indep_check n sub && forallb (in_spanb n sub) rows.
Theorem rank_check_sound n rows k : rank_check n rows k = true -> rank_is n rows k.
Proof.
  unfold rank_check. intros H. apply andb_true_iff in H. destruct H as [H H3].
  apply andb_true_iff in H. destruct H as [H1 H2]. apply Nat.eqb_eq in H1.
  exists (greedy n [] rows). split; [|split; [exact H1|split]].
  - apply greedy_incl; [intros x []|apply incl_refl].
  - now apply indep_check_sound.
  - intros r Hr. rewrite forallb_forall in H3. apply in_spanb_sound. now apply H3.
Qed.
