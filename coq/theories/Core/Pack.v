(* Core/Pack.v — model of paulitools.pack / unpack:
   np.packbits (big-endian bits, zero padded to a byte) rendered as hex digits,
   and np.unpackbits(bytearray.fromhex(h))[:length]. *)
From Coq Require Import Arith List Bool Lia.
From QV Require Import Core.Bits.
Import ListNotations.

(* a hex digit is its four bits, most significant first *)
Definition nibble := (bool * bool * bool * bool)%type.
Fixpoint chunk4 (l : bsf) : list nibble :=   (* zero padded *)
  match l with
  | a :: b :: c :: d :: r => (a, b, c, d) :: chunk4 r
  | [a; b; c] => [(a, b, c, false)]
  | [a; b] => [(a, b, false, false)]
  | [a] => [(a, false, false, false)]
  | [] => []
  end.
Definition zero_nibble : nibble := (false, false, false, false).
(* packbits pads to whole bytes, i.e. to an even number of hex digits *)
Definition pad_even (l : list nibble) : list nibble :=
  if Nat.even (length l) then l else l ++ [zero_nibble].
Definition pack (v : bsf) : list nibble * nat := (pad_even (chunk4 v), length v).
Definition nibble_bits (x : nibble) : bsf := let '(a, b, c, d) := x in [a; b; c; d].
Definition unpack (p : list nibble * nat) : option bsf :=
  let '(h, len) := p in
  if Nat.even (length h) then Some (firstn len (flat_map nibble_bits h)) else None.  (* fromhex rejects odd digit counts *)

Lemma chunk4_ind (P : bsf -> Prop) :
  P [] -> (forall a, P [a]) -> (forall a b, P [a; b]) -> (forall a b c, P [a; b; c]) ->
  (forall a b c d r, P r -> P (a :: b :: c :: d :: r)) -> forall l, P l.
Proof.
  intros H0 H1 H2 H3 H4. fix IH 1. intros [|a [|b [|c [|d r]]]]; [exact H0|apply H1|apply H2|apply H3|apply H4, IH].
Qed.

Lemma firstn_chunk4 v : firstn (length v) (flat_map nibble_bits (chunk4 v)) = v.
Proof.
  induction v as [| a | a b | a b c | a b c d r IH] using chunk4_ind; try reflexivity.
  cbn [chunk4 flat_map nibble_bits length app firstn]. now rewrite IH.
Qed.
Lemma firstn_app_le {A} n (l l' : list A) : n <= length l -> firstn n (l ++ l') = firstn n l.
Proof. intros H. rewrite firstn_app. replace (n - length l) with 0 by lia. cbn. apply app_nil_r. Qed.
Lemma chunk4_bits_length v : length v <= length (flat_map nibble_bits (chunk4 v)).
Proof.
  induction v as [| a | a b | a b c | a b c d r IH] using chunk4_ind; cbn in *; lia.
Qed.

Theorem unpack_pack v : unpack (pack v) = Some v.
Proof.
  unfold pack, unpack, pad_even. destruct (Nat.even (length (chunk4 v))) eqn:E.
  - rewrite E. now rewrite firstn_chunk4.
  - rewrite app_length. cbn [length]. rewrite Nat.add_1_r, Nat.even_succ, <- Nat.negb_even, E. cbn.
    rewrite flat_map_app, firstn_app_le by apply chunk4_bits_length. now rewrite firstn_chunk4.
Qed.
Theorem pack_injective v w : pack v = pack w -> v = w.
Proof. intros H. assert (E : unpack (pack v) = unpack (pack w)) by now rewrite H. rewrite !unpack_pack in E. now injection E. Qed.
Theorem pack_length v : snd (pack v) = length v.
Proof. reflexivity. Qed.
Theorem pack_even_digits v : Nat.even (length (fst (pack v))) = true.
Proof.
  unfold pack, pad_even. cbn [fst]. destruct (Nat.even (length (chunk4 v))) eqn:E; auto.
  rewrite app_length. cbn [length]. now rewrite Nat.add_1_r, Nat.even_succ, <- Nat.negb_even, E.
Qed.
