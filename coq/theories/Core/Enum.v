(* Core/Enum.v — model of paulitools.ipauli / ibsf: for each weight, itertools.combinations
   of positions x itertools.product('XZY') x fill; completeness, no duplicates, weight order. *)
From Coq Require Import Arith List Bool Lia Sorting.Sorted FinFun.
From QV Require Import Core.Bits Core.Pauli.
Import ListNotations.

Definition XZY := [pX; pZ; pY].

(* itertools.combinations(positions, w) *)
Fixpoint combs (pos : list nat) (w : nat) : list (list nat) :=
  match w with
  | O => [[]]
  | S w' => match pos with [] => [] | p :: ps => map (cons p) (combs ps w') ++ combs ps (S w') end
  end.
(* itertools.product('XZY', repeat=w) *)
Fixpoint prods (w : nat) : list (list pl) :=
  match w with O => [[]] | S w' => flat_map (fun l => map (cons l) (prods w')) XZY end.
(* the inner loop of ipauli: 'I'*k with selected positions overwritten; i = index of first char *)
Fixpoint fill (k i : nat) (qs : list nat) (ls : list pl) : list pl :=
  match k with
  | O => []
  | S k' => match qs, ls with
            | q :: qs', l :: ls' => if i =? q then l :: fill k' (S i) qs' ls' else pI :: fill k' (S i) qs ls
            | _, _ => pI :: fill k' (S i) qs ls
            end
  end.
Definition block (i k w : nat) : list (list pl) :=
  flat_map (fun qs => map (fill k i qs) (prods w)) (combs (seq i k) w).
Definition ipauli (n lo hi : nat) : list (list pl) :=
  flat_map (block 0 n) (seq lo (S hi - lo)).

(* reference generator, structurally recursive on the string *)
Fixpoint gen (k w : nat) : list (list pl) :=
  match k with
  | O => match w with O => [[]] | S _ => [] end
  | S k' => map (cons pI) (gen k' w) ++
            match w with O => [] | S w' => flat_map (fun l => map (cons l) (gen k' w')) XZY end
  end.

Lemma gen_spec k : forall w s, In s (gen k w) <-> length s = k /\ pauli_wt s = w.
Proof.
  induction k as [|k IH]; intros w s; cbn [gen].
  - destruct w; cbn; split.
    + intros [<-|[]]; auto. + intros [H1 H2]. destruct s; [auto|discriminate].
    + intros []. + intros [H1 H2]. destruct s; [discriminate|discriminate].
  - rewrite in_app_iff, in_map_iff. split.
    + intros [(t & <- & Ht)|H].
      * apply IH in Ht. cbn. lia.
      * destruct w as [|w]; [destruct H|]. apply in_flat_map in H. destruct H as (l & Hl & H).
        apply in_map_iff in H. destruct H as (t & <- & Ht). apply IH in Ht.
        cbn in Hl. destruct Hl as [<-|[<-|[<-|[]]]]; cbn; lia.
    + intros [H1 H2]. destruct s as [|p t]; [discriminate|]. cbn in H1, H2.
      destruct p.
      * left. exists t. split; auto. apply IH. cbn in H2. lia.
      * right. destruct w; [cbn in H2; lia|]. apply in_flat_map. exists pX. split; [cbn; auto|].
        apply in_map. apply IH. cbn in H2. lia.
      * right. destruct w; [cbn in H2; lia|]. apply in_flat_map. exists pY. split; [cbn; auto|].
        apply in_map. apply IH. cbn in H2. lia.
      * right. destruct w; [cbn in H2; lia|]. apply in_flat_map. exists pZ. split; [cbn; auto|].
        apply in_map. apply IH. cbn in H2. lia.
Qed.

Lemma NoDup_map_cons {A} (a : A) l : NoDup l -> NoDup (map (cons a) l).
Proof. induction 1 as [|x l Hx Hl IH]; cbn; constructor; auto.
  intros Hin. apply in_map_iff in Hin. destruct Hin as (y & E & Hy). injection E as ->. contradiction. Qed.

Lemma nodup_app {A} (l l' : list A) : NoDup l -> NoDup l' -> (forall x, In x l -> ~ In x l') -> NoDup (l ++ l').
Proof. induction l as [|a l IH]; intros H H' Hd; cbn; [exact H'|]. inversion H; subst. constructor.
  - rewrite in_app_iff. intros [?|?]; [contradiction|]. apply (Hd a); cbn; auto.
  - apply IH; auto. intros x Hx. apply Hd. cbn; auto. Qed.

Lemma gen_nodup k : forall w, NoDup (gen k w).
Proof.
  induction k as [|k IH]; intros w; cbn [gen].
  - destruct w; constructor; auto. constructor.
  - apply nodup_app.
    + apply NoDup_map_cons, IH.
    + destruct w as [|w]; [constructor|]. cbn [flat_map XZY]. rewrite app_nil_r.
      apply nodup_app; [apply NoDup_map_cons, IH| apply nodup_app; [apply NoDup_map_cons, IH|apply NoDup_map_cons, IH|] |].
      * intros x Hx Hy. apply in_map_iff in Hx, Hy. destruct Hx as (? & <- & _), Hy as (? & E & _). discriminate.
      * intros x Hx Hy. apply in_map_iff in Hx. destruct Hx as (? & <- & _). rewrite in_app_iff in Hy.
        destruct Hy as [Hy|Hy]; apply in_map_iff in Hy; destruct Hy as (? & E & _); discriminate.
    + intros x Hx Hy. apply in_map_iff in Hx. destruct Hx as (? & <- & _). destruct w; [destruct Hy|].
      apply in_flat_map in Hy. destruct Hy as (l & Hl & Hy). apply in_map_iff in Hy. destruct Hy as (? & E & _).
      cbn in Hl. destruct Hl as [<-|[<-|[<-|[]]]]; discriminate.
Qed.

(* ---- lengths: both satisfy the same recurrence ---- *)
Lemma flat_map_len {A B} (f : A -> list B) c l : (forall a, In a l -> length (f a) = c) -> length (flat_map f l) = length l * c.
Proof. induction l as [|a l IH]; intros H; cbn; [reflexivity|]. rewrite app_length, IH, H; cbn; auto. intros; apply H; cbn; auto. Qed.
Lemma prods_len w : length (prods w) = 3 ^ w.
Proof. induction w as [|w IH]; cbn [prods]; [reflexivity|]. cbn [flat_map XZY]. rewrite !app_length, !map_length, IH. cbn [length]. rewrite Nat.pow_succ_r'. lia. Qed.
Lemma block_len i k w : length (block i k w) = length (combs (seq i k) w) * 3 ^ w.
Proof. unfold block. apply flat_map_len. intros; now rewrite map_length, prods_len. Qed.
Lemma combs_0 pos : combs pos 0 = [[]].
Proof. destruct pos; reflexivity. Qed.
Lemma combs_len_rec i k w : length (combs (seq i (S k)) (S w)) = length (combs (seq (S i) k) w) + length (combs (seq (S i) k) (S w)).
Proof. cbn [seq combs]. now rewrite app_length, map_length. Qed.
Lemma combs_len_shift k : forall i j w, length (combs (seq i k) w) = length (combs (seq j k) w).
Proof. induction k as [|k IH]; intros i j w; destruct w; cbn [seq combs]; auto.
  rewrite !app_length, !map_length. rewrite (IH (S i) (S j) w), (IH (S i) (S j) (S w)). reflexivity. Qed.
Lemma gen_len k : forall w i, length (gen k w) = length (combs (seq i k) w) * 3 ^ w.
Proof.
  induction k as [|k IH]; intros w i; cbn [gen].
  - destruct w; [rewrite combs_0|]; cbn; lia.
  - rewrite app_length, map_length. destruct w as [|w].
    + cbn [length]. rewrite (IH 0 (S i)). rewrite !combs_0. lia.
    + rewrite combs_len_rec. cbn [flat_map XZY]. rewrite !app_length, !map_length. cbn [length].
      rewrite (IH (S w) (S i)), (IH w (S i)). rewrite !Nat.pow_succ_r'. lia.
Qed.

(* ---- completeness: every string of gen is produced by block ---- *)
Lemma combs_ge i k : forall w qs q, In qs (combs (seq i k) w) -> In q qs -> i <= q.
Proof.
  revert i; induction k as [|k IH]; intros i w qs q H Hq; destruct w; cbn [seq combs] in H.
  - destruct H as [<-|[]]; destruct Hq. - destruct H. - destruct H as [<-|[]]; destruct Hq.
  - apply in_app_iff in H. destruct H as [H|H].
    + apply in_map_iff in H. destruct H as (t & <- & Ht). destruct Hq as [<-|Hq]; [lia|]. specialize (IH _ _ _ _ Ht Hq). lia.
    + specialize (IH _ _ _ _ H Hq). lia.
Qed.
Lemma fill_skip k i qs ls : (forall q, In q qs -> S i <= q) -> fill (S k) i qs ls = pI :: fill k (S i) qs ls.
Proof. intros H. cbn [fill]. destruct qs as [|q qs'], ls as [|l ls']; auto.
  destruct (i =? q) eqn:E; auto. apply Nat.eqb_eq in E. specialize (H q (or_introl eq_refl)). lia. Qed.
Lemma fill_take k i qs l ls : fill (S k) i (i :: qs) (l :: ls) = l :: fill k (S i) qs ls.
Proof. cbn [fill]. now rewrite Nat.eqb_refl. Qed.

Lemma prods_in w l ls : In l XZY -> In ls (prods w) -> In (l :: ls) (prods (S w)).
Proof. intros Hl H. cbn [prods]. apply in_flat_map. exists l. split; auto. now apply in_map. Qed.

Lemma block_complete k : forall i w s, In s (gen k w) -> In s (block i k w).
Proof.
  induction k as [|k IH]; intros i w s H; cbn [gen] in H.
  - destruct w; [|destruct H]. destruct H as [<-|[]]. cbn. auto.
  - apply in_app_iff in H. destruct H as [H|H].
    + apply in_map_iff in H. destruct H as (t & <- & Ht). apply (IH (S i)) in Ht.
      unfold block in *. apply in_flat_map in Ht. destruct Ht as (qs & Hqs & Ht). apply in_map_iff in Ht.
      destruct Ht as (ls & <- & Hls). apply in_flat_map. exists qs. split.
      * destruct w; [rewrite combs_0 in *; exact Hqs|]. cbn [seq combs]. apply in_app_iff. right. exact Hqs.
      * apply in_map_iff. exists ls. split; auto. apply fill_skip. intros q Hq. apply (combs_ge _ _ _ _ _ Hqs Hq).
    + destruct w as [|w]; [destruct H|]. apply in_flat_map in H. destruct H as (l & Hl & H).
      apply in_map_iff in H. destruct H as (t & <- & Ht). apply (IH (S i)) in Ht.
      unfold block in *. apply in_flat_map in Ht. destruct Ht as (qs & Hqs & Ht). apply in_map_iff in Ht.
      destruct Ht as (ls & <- & Hls). apply in_flat_map. exists (i :: qs). split.
      * cbn [seq combs]. apply in_app_iff. left. now apply in_map.
      * apply in_map_iff. exists (l :: ls). split; [apply fill_take|]. now apply prods_in.
Qed.

Theorem block_spec i k w s : In s (block i k w) <-> length s = k /\ pauli_wt s = w.
Proof.
  rewrite <- gen_spec. split; [|apply block_complete].
  assert (Hnd : NoDup (gen k w)) by apply gen_nodup.
  assert (Hlen : length (block i k w) <= length (gen k w)) by (rewrite block_len, (gen_len k w i); lia).
  apply (NoDup_length_incl Hnd Hlen). intros x; apply block_complete.
Qed.
Theorem block_nodup i k w : NoDup (block i k w).
Proof.
  apply (NoDup_incl_NoDup (gen_nodup k w)).
  - rewrite block_len, (gen_len k w i); lia.
  - intros x; apply block_complete.
Qed.


(* ---- the whole iterator ---- *)
Theorem ipauli_spec n lo hi s : lo <= hi -> In s (ipauli n lo hi) <-> length s = n /\ lo <= pauli_wt s <= hi.
Proof.
  intros Hle. unfold ipauli. rewrite in_flat_map. split.
  - intros (w & Hw & Hs). apply in_seq in Hw. apply block_spec in Hs. lia.
  - intros (Hl & Hw). exists (pauli_wt s). split; [apply in_seq; lia|]. apply block_spec. auto.
Qed.

Lemma nodup_flat_map {A B} (f : A -> list B) l :
  NoDup l -> (forall a, In a l -> NoDup (f a)) ->
  (forall a b x, In a l -> In b l -> In x (f a) -> In x (f b) -> a = b) -> NoDup (flat_map f l).
Proof.
  induction 1 as [|a l Ha Hl IH]; intros Hf Hd; cbn; [constructor|].
  apply nodup_app.
  - apply Hf; cbn; auto.
  - apply IH; [intros; apply Hf; cbn; auto|]. intros a0 b x H1 H2. apply Hd; cbn; auto.
  - intros x Hx Hy. apply in_flat_map in Hy. destruct Hy as (b & Hb & Hy).
    assert (a = b) by (apply (Hd a b x); cbn; auto). subst. contradiction.
Qed.
Theorem ipauli_nodup n lo hi : NoDup (ipauli n lo hi).
Proof.
  unfold ipauli. apply nodup_flat_map.
  - apply seq_NoDup.
  - intros; apply block_nodup.
  - intros a b x _ _ Ha Hb. apply block_spec in Ha, Hb. lia.
Qed.

Lemma ss_app (a b : list nat) : StronglySorted le a -> StronglySorted le b ->
  (forall x y, In x a -> In y b -> x <= y) -> StronglySorted le (a ++ b).
Proof.
  induction 1 as [|x a Ha IH Hx]; intros Hb Hc; cbn; auto. constructor.
  - apply IH; auto. intros; apply Hc; cbn; auto.
  - apply Forall_app. split; [exact Hx|]. apply Forall_forall. intros y Hy. apply Hc; cbn; auto.
Qed.
Lemma ss_const (w : nat) l : (forall x, In x l -> x = w) -> StronglySorted le l.
Proof.
  induction l as [|a l IH]; intros H; constructor.
  - apply IH. intros; apply H; cbn; auto.
  - apply Forall_forall. intros y Hy. rewrite (H a), (H y); cbn; auto.
Qed.
Theorem ipauli_sorted n lo hi : StronglySorted le (map pauli_wt (ipauli n lo hi)).
Proof.
  unfold ipauli. generalize (S hi - lo) as k. intros k. revert lo.
  induction k as [|k IH]; intros lo; cbn [seq flat_map]; [constructor|].
  rewrite map_app. apply ss_app.
  - apply (ss_const lo). intros x Hx. apply in_map_iff in Hx. destruct Hx as (s & <- & Hs).
    apply block_spec in Hs. lia.
  - apply IH.
  - intros x y Hx Hy. apply in_map_iff in Hx, Hy. destruct Hx as (s & <- & Hs), Hy as (t & <- & Ht).
    apply block_spec in Hs. apply in_flat_map in Ht. destruct Ht as (w & Hw & Ht).
    apply in_seq in Hw. apply block_spec in Ht. lia.
Qed.

(* ibsf = map pauli_to_bsf over ipauli *)
Definition ibsf (n lo hi : nat) : list bsf := map to_bsf (ipauli n lo hi).
Theorem ibsf_nodup n lo hi : NoDup (ibsf n lo hi).
Proof. unfold ibsf. apply FinFun.Injective_map_NoDup; [intros a b; apply to_bsf_inj|apply ipauli_nodup]. Qed.
