(* Core/SympShape.v — the SHAPE of the three call forms of paulitools.bsp, and degenerate operands.
   bsp(A, B) has one entry per (operator of A, operator of B): a length-k vector for a vector against k
   stacked operators, a length-m vector for m stacked operators against a vector, an m x k matrix for
   matrices — whatever the entries are.  In particular an operand whose every stacked operator is the
   identity (all entries 0) gives the all-zero result OF THAT SHAPE, never a smaller one. *)
From Coq Require Import Arith List Bool Lia.
From QV Require Import Core.Bits Core.Pauli Core.Symp.
Import ListNotations.

(* ---- shapes ------------------------------------------------------------------------------------ *)
Lemma bsp_vm_length a b m : length (bsp_vm a b m) = m.
Proof. unfold bsp_vm. now rewrite map_length, seq_length. Qed.
Lemma bsp_mv_length A b : length (bsp_mv A b) = length A.
Proof. unfold bsp_mv. apply map_length. Qed.
Lemma bsp_mm_length A b m : length (bsp_mm A b m) = length A.
Proof. unfold bsp_mm. apply map_length. Qed.
Lemma bsp_mm_row_length A b m : Forall (fun r => length r = m) (bsp_mm A b m).
Proof. unfold bsp_mm. apply Forall_forall. intros r Hr. apply in_map_iff in Hr.
  destruct Hr as [a [<- _]]. apply bsp_vm_length. Qed.

(* a single stacked operator / a single column is the vector form, as a 1-element result *)
Lemma bsp_mv_single a b : bsp_mv [a] b = [bsp a b].
Proof. reflexivity. Qed.
Lemma bsp_mm_single_row a b m : bsp_mm [a] b m = [bsp_vm a b m].
Proof. reflexivity. Qed.
Lemma bsp_vm_single_col a b : bsp_vm a b 1 = [bsp a (col 0 b)].
Proof. reflexivity. Qed.
(* no stacked operators at all *)
Lemma bsp_mm_no_rows b m : bsp_mm [] b m = [].
Proof. reflexivity. Qed.
Lemma bsp_vm_no_cols a b : bsp_vm a b 0 = [].
Proof. reflexivity. Qed.

(* ---- all-zero vectors ---------------------------------------------------------------------------- *)
Lemma is_zero_zeros k : is_zero (zeros k) = true.
Proof. unfold is_zero, zeros. induction k; cbn; auto. Qed.
Lemma is_zero_eq a : is_zero a = true -> a = zeros (length a).
Proof. unfold is_zero, zeros. induction a as [|x a IH]; cbn; auto.
  intros H. apply andb_true_iff in H. destruct H as [Hx Ha]. destruct x; [discriminate|]. f_equal. auto. Qed.
Lemma is_zero_app a b : is_zero (a ++ b) = is_zero a && is_zero b.
Proof. unfold is_zero. apply forallb_app. Qed.
Lemma is_zero_firstn n a : is_zero a = true -> is_zero (firstn n a) = true.
Proof. unfold is_zero. revert n. induction a as [|x a IH]; intros [|n] H; cbn in *; auto.
  apply andb_true_iff in H. destruct H as [-> Ha]. cbn. auto. Qed.
Lemma is_zero_skipn n a : is_zero a = true -> is_zero (skipn n a) = true.
Proof. unfold is_zero. revert n. induction a as [|x a IH]; intros [|n] H; cbn in *; auto.
  apply andb_true_iff in H. destruct H as [_ Ha]. auto. Qed.
Lemma swap_halves_zero a : is_zero a = true -> is_zero (swap_halves a) = true.
Proof. intros H. unfold swap_halves, halves. rewrite is_zero_app.
  now rewrite is_zero_skipn, is_zero_firstn. Qed.
Lemma dot_is_zero_l a b : is_zero a = true -> dot a b = false.
Proof. intros H. rewrite (is_zero_eq a H). apply dot_zeros_l. Qed.
Lemma dot_is_zero_r a b : is_zero b = true -> dot a b = false.
Proof. intros H. rewrite (is_zero_eq b H). apply dot_zeros_r. Qed.

(* the identity commutes with everything: vector form *)
Theorem bsp_zero_r a b : is_zero b = true -> bsp a b = false.
Proof. intros H. unfold bsp. now apply dot_is_zero_r. Qed.
Theorem bsp_zero_l a b : is_zero a = true -> bsp a b = false.
Proof. intros H. unfold bsp. apply dot_is_zero_l. now apply swap_halves_zero. Qed.

(* ---- all-zero matrices: the result is the zero array OF THE FULL SHAPE ------------------------------ *)
Definition all_zero_rows (b : list bsf) : Prop := Forall (fun r => is_zero r = true) b.

Lemma nth_is_zero j r : is_zero r = true -> nth j r false = false.
Proof. unfold is_zero. revert j. induction r as [|x r IH]; intros [|j] H; cbn in *; auto.
  - apply andb_true_iff in H. destruct H as [Hx _]. now destruct x.
  - apply andb_true_iff in H. destruct H as [_ Hr]. auto. Qed.
Lemma col_zero j b : all_zero_rows b -> is_zero (col j b) = true.
Proof. unfold all_zero_rows, col, is_zero. induction 1 as [|r b Hr _ IH]; cbn; auto.
  rewrite (nth_is_zero j r Hr). cbn. exact IH. Qed.

Lemma map_const_repeat {A B} (f : A -> B) (c : B) l : (forall x, In x l -> f x = c) -> map f l = repeat c (length l).
Proof. induction l as [|x l IH]; cbn; auto. intros H. rewrite (H x) by auto. f_equal. apply IH. auto. Qed.

(* B (2n x k, given by rows) with every entry 0, i.e. k stacked identities *)
Theorem bsp_vm_zero_r a b m : all_zero_rows b -> bsp_vm a b m = zeros m.
Proof. intros H. unfold bsp_vm, zeros. rewrite <- (seq_length m 0) at 2.
  apply map_const_repeat. intros j _. apply dot_is_zero_r. now apply col_zero. Qed.
Theorem bsp_mm_zero_r A b m : all_zero_rows b -> bsp_mm A b m = repeat (zeros m) (length A).
Proof. intros H. unfold bsp_mm. apply map_const_repeat. intros a _. now apply bsp_vm_zero_r. Qed.
Theorem bsp_mv_zero_r A b : is_zero b = true -> bsp_mv A b = zeros (length A).
Proof. intros H. unfold bsp_mv, zeros. apply map_const_repeat. intros a _. now apply bsp_zero_r. Qed.
(* A with every stacked operator the identity *)
Theorem bsp_vm_zero_l a b m : is_zero a = true -> bsp_vm a b m = zeros m.
Proof. intros H. unfold bsp_vm, zeros. rewrite <- (seq_length m 0) at 2.
  apply map_const_repeat. intros j _. apply dot_is_zero_l. now apply swap_halves_zero. Qed.
Theorem bsp_mv_zero_l A b : all_zero_rows A -> bsp_mv A b = zeros (length A).
Proof. intros H. unfold bsp_mv, zeros. apply map_const_repeat. intros a Ha. apply bsp_zero_l.
  unfold all_zero_rows in H. rewrite Forall_forall in H. auto. Qed.
Theorem bsp_mm_zero_l A b m : all_zero_rows A -> bsp_mm A b m = repeat (zeros m) (length A).
Proof. intros H. unfold bsp_mm. apply map_const_repeat. intros a Ha. apply bsp_vm_zero_l.
  unfold all_zero_rows in H. rewrite Forall_forall in H. auto. Qed.

(* ---- bilinearity of the stacked forms, element by element -------------------------------------------- *)
Theorem bsp_mv_linear_r A b c : length b = length c ->
  bsp_mv A (xorv b c) = xorv (bsp_mv A b) (bsp_mv A c).
Proof. intros H. unfold bsp_mv. induction A as [|a A IH]; cbn [map xorv]; auto.
  rewrite IH. f_equal. now apply bsp_linear_r. Qed.
Theorem bsp_vm_linear_l a a' b m : length a = length a' ->
  bsp_vm (xorv a a') b m = xorv (bsp_vm a b m) (bsp_vm a' b m).
Proof. intros H. unfold bsp_vm. induction (seq 0 m) as [|j l IH]; cbn [map xorv]; auto.
  rewrite IH. f_equal. apply (bsp_linear_l a a' (col j b) H). Qed.

(* weights of degenerate operands *)
Lemma bsf_wt_zero a : is_zero a = true -> bsf_wt a = 0.
Proof. intros H. unfold bsf_wt, halves.
  pose proof (is_zero_firstn (length a / 2) a H) as H1. pose proof (is_zero_skipn (length a / 2) a H) as H2.
  rewrite (is_zero_eq _ H1), (is_zero_eq _ H2).
  generalize (length (firstn (length a / 2) a)) as p. generalize (length (skipn (length a / 2) a)) as q.
  unfold zeros. intros q p. revert q. induction p as [|p IH]; intros [|q]; cbn; auto. Qed.
Lemma bsf_wt_rows_zero A : all_zero_rows A -> bsf_wt_rows A = 0.
Proof. induction 1 as [|a A Ha _ IH]; [reflexivity|].
  change (bsf_wt_rows (a :: A)) with (bsf_wt a + bsf_wt_rows A). now rewrite (bsf_wt_zero a Ha), IH. Qed.
Lemma bsf_wt_rows_single a : bsf_wt_rows [a] = bsf_wt a.
Proof. change (bsf_wt_rows [a]) with (bsf_wt a + 0). lia. Qed.

(* ---- the statements as used by Props/C09.v ------------------------------------------------------------ *)
Theorem bsp_mm_shape A b m : length (bsp_mm A b m) = length A /\ Forall (fun r => length r = m) (bsp_mm A b m).
Proof. split; [apply bsp_mm_length | apply bsp_mm_row_length]. Qed.
Theorem bsp_identity_rhs A b m : all_zero_rows b ->
  bsp_mm A b m = repeat (zeros m) (length A) /\ (forall a, bsp_vm a b m = zeros m).
Proof. intros H. split; [now apply bsp_mm_zero_r | intros a; now apply bsp_vm_zero_r]. Qed.
Theorem bsp_identity_lhs A b m : all_zero_rows A ->
  bsp_mm A b m = repeat (zeros m) (length A) /\ (forall v, bsp_mv A v = zeros (length A)).
Proof. intros H. split; [now apply bsp_mm_zero_l | intros v; now apply bsp_mv_zero_l]. Qed.
Theorem bsp_identity_vector a b : is_zero a = true \/ is_zero b = true -> bsp a b = false.
Proof. intros [H|H]; [now apply bsp_zero_l | now apply bsp_zero_r]. Qed.
