(* Core/CodeP.v — the validation theorem restated on Pauli strings with the
   independent letter-level commutation of Core/Pauli.v. *)
From Coq Require Import Arith List Bool Lia.
From QV Require Import Core.Bits Core.Pauli Core.Symp Core.Code.
Import ListNotations.

Definition code_of (ss xs zs : list pstr) : code := mkCode (map to_bsf ss) (map to_bsf xs) (map to_bsf zs).
Definition uniform (n : nat) (l : list pstr) : Prop := forall s, In s l -> length s = n.

Definition canonical_p (xs zs : list pstr) : Prop :=
  forall i j, i < length xs -> j < length xs ->
    anticommutes (nth i xs []) (nth j xs []) = false /\ anticommutes (nth i zs []) (nth j zs []) = false /\
    anticommutes (nth i xs []) (nth j zs []) = (i =? j) /\ anticommutes (nth i zs []) (nth j xs []) = (i =? j).

Lemma nth_map_to_bsf l i : nth i (map to_bsf l) [] = to_bsf (nth i l []).
Proof. change (@nil bool) with (to_bsf []). apply map_nth. Qed.

Theorem validate_iff_pauli n ss xs zs :
  uniform n ss -> uniform n xs -> uniform n zs -> length xs = length zs ->
  (validate (code_of ss xs zs) = VOk <->
   (forall s s', In s ss -> In s' ss -> anticommutes s s' = false) /\
   (forall s l, In s ss -> In l (xs ++ zs) -> anticommutes s l = false) /\
   canonical_p xs zs).
Proof.
  intros Us Ux Uz HL.
  rewrite validate_iff_canonical by (cbn; now rewrite !map_length).
  unfold logicals. cbn [stabs lxs lzs code_of]. rewrite <- map_app.
  assert (Uxz : uniform n (xs ++ zs)) by (intros s Hs; apply in_app_iff in Hs; destruct Hs; auto).
  split; intros (H1 & H2 & H3); (split; [|split]).
  - intros s s' Hs Hs'. rewrite <- bsp_is_anticommutation by (rewrite Us, Us; auto). apply H1; now apply in_map.
  - intros s l Hs Hl. rewrite <- bsp_is_anticommutation by (rewrite Us, Uxz; auto). apply H2; now apply in_map.
  - intros i j Hi Hj. specialize (H3 i j). rewrite !map_length in H3. specialize (H3 Hi Hj).
    rewrite !nth_map_to_bsf in H3.
    assert (Lx : forall a, a < length xs -> length (nth a xs []) = n) by (intros; apply Ux, nth_In; auto).
    assert (Lz : forall a, a < length xs -> length (nth a zs []) = n) by (intros; apply Uz, nth_In; lia).
    rewrite !bsp_is_anticommutation in H3 by (rewrite ?Lx, ?Lz; auto). exact H3.
  - intros a b Ha Hb. apply in_map_iff in Ha, Hb. destruct Ha as (s & <- & Hs), Hb as (s' & <- & Hs').
    rewrite bsp_is_anticommutation by (rewrite Us, Us; auto). now apply H1.
  - intros a b Ha Hb. apply in_map_iff in Ha, Hb. destruct Ha as (s & <- & Hs), Hb as (l & <- & Hl).
    rewrite bsp_is_anticommutation by (rewrite Us, Uxz; auto). now apply H2.
  - intros i j Hi Hj. rewrite !map_length in Hi, Hj. rewrite !nth_map_to_bsf.
    assert (Lx : forall a, a < length xs -> length (nth a xs []) = n) by (intros; apply Ux, nth_In; auto).
    assert (Lz : forall a, a < length xs -> length (nth a zs []) = n) by (intros; apply Uz, nth_In; lia).
    rewrite !bsp_is_anticommutation by (rewrite ?Lx, ?Lz; auto). now apply H3.
Qed.

(* single-operator corruption: if one stabilizer is multiplied by an operator d that
   anticommutes with another listed stabilizer or with a logical, validation fails *)
Theorem corrupt_stabilizer_detected c pre s post d p :
  stabs c = pre ++ s :: post -> validate c = VOk ->
  length d = length s -> (In p (pre ++ post) \/ In p (logicals c)) -> bsp d p = true ->
  validate (mkCode (pre ++ xorv s d :: post) (lxs c) (lzs c)) <> VOk.
Proof.
  intros Hst Hv Hlen Hp Hd Hv'. apply validate_ok_iff in Hv, Hv'.
  destruct Hv as (H1 & H2 & _), Hv' as (H1' & H2' & _). cbn [stabs lxs lzs logicals] in *.
  assert (Hin' : In (xorv s d) (pre ++ xorv s d :: post)) by (apply in_app_iff; right; cbn; auto).
  assert (Hin : In s (stabs c)) by (rewrite Hst; apply in_app_iff; right; cbn; auto).
  destruct Hp as [Hp|Hp].
  - assert (Hp1 : In p (stabs c)) by (rewrite Hst; apply in_app_iff; apply in_app_iff in Hp; cbn; tauto).
    assert (Hp2 : In p (pre ++ xorv s d :: post)) by (apply in_app_iff; apply in_app_iff in Hp; cbn; tauto).
    specialize (H1 s p Hin Hp1). specialize (H1' _ p Hin' Hp2).
    rewrite bsp_linear_l in H1' by auto. rewrite H1, Hd in H1'. discriminate.
  - specialize (H2 s p Hin Hp). specialize (H2' _ p Hin' Hp).
    rewrite bsp_linear_l in H2' by auto. rewrite H2, Hd in H2'. discriminate.
Qed.
