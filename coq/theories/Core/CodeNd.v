(* Core/CodeNd.v — two further presentations of StabilizerCode.validate (model.py:135-157):
   (1) validate_fast: the same three checks with the left operand's halves swapped once per row
       (what `hstack((a2, a1)).dot(b)` does for a matrix) — used by the engine on large codes;
   (2) validate_nd: the operators as NumPy presents them when a property returns a 1-d vector
       (documented return type "numpy.array (1d or 2d)"): `.T` of a 1-d array is the array itself,
       bsp of two vectors is a scalar, bsp of a vector with a matrix is a vector, np.vstack promotes
       vectors to single rows, len() of a vector is its number of entries (NOT the number of operators).
   Both are proved equal to Core.Code.validate on the list of rows. *)
From Coq Require Import Arith List Bool Lia.
From QV Require Import Core.Bits Core.Pauli Core.Symp Core.Code.
Import ListNotations.

(* ---------- (1) pre-swapped Gram matrix ---------- *)
Definition gram_pre (A B : list bsf) : list bsf :=
  map (fun a' => map (fun b => dot a' b) B) (map swap_halves A).
Lemma gram_pre_eq A B : gram_pre A B = gram A B.
Proof. unfold gram_pre, gram. rewrite map_map. reflexivity. Qed.

Definition validate_fast (c : code) : vresult :=
  if negb (all_zero (gram_pre (stabs c) (stabs c))) then VErrStab
  else if negb (all_zero (gram_pre (stabs c) (logicals c))) then VErrStabLog
  else if negb (Nat.even (length (logicals c))) then VErrSplit
  else if negb (beqm (gram_pre (logicals c) (logicals c)) (twisted (length (logicals c)))) then VErrLog
  else VOk.
Theorem validate_fast_eq c : validate_fast c = validate c.
Proof. unfold validate_fast, validate. now rewrite !gram_pre_eq. Qed.

(* ---------- (2) 1-d / 2-d presentations ---------- *)
Inductive ndarr := A1 (v : bsf) | A2 (rows : list bsf).
Definition atleast_2d (a : ndarr) : list bsf := match a with A1 v => [v] | A2 r => r end.
(* len(a): first axis *)
Definition len (a : ndarr) : nat := match a with A1 v => length v | A2 r => length r end.
(* np.vstack((a, b)) is always 2-d *)
Definition vstack (a b : ndarr) : list bsf := atleast_2d a ++ atleast_2d b.

(* np.all(bsp(S, S.T) == 0): scalar for a vector S *)
Definition stab_self_ok (S : ndarr) : bool :=
  match S with A1 s => negb (bsp s s) | A2 R => all_zero (gram R R) end.
(* np.all(bsp(S, L.T) == 0) with L 2-d: a vector of len(L) entries for a vector S *)
Definition stab_log_ok (S : ndarr) (L : list bsf) : bool :=
  match S with A1 s => is_zero (map (fun l => bsp s l) L) | A2 R => all_zero (gram R L) end.

Definition validate_nd (S X Z : ndarr) : vresult :=
  let L := vstack X Z in
  if negb (stab_self_ok S) then VErrStab
  else if negb (stab_log_ok S L) then VErrStabLog
  else if negb (Nat.even (length L)) then VErrSplit
  else if negb (beqm (gram L L) (twisted (length L))) then VErrLog
  else VOk.

Definition code_nd (S X Z : ndarr) : code := mkCode (atleast_2d S) (atleast_2d X) (atleast_2d Z).

Lemma stab_self_ok_eq S : stab_self_ok S = all_zero (gram (atleast_2d S) (atleast_2d S)).
Proof. destruct S as [s|R]; cbn; auto. now rewrite !andb_true_r. Qed.
Lemma stab_log_ok_eq S L : stab_log_ok S L = all_zero (gram (atleast_2d S) L).
Proof. destruct S as [s|R]; cbn; auto. now rewrite andb_true_r. Qed.

(* the presentation does not matter: a vector is the one-row matrix *)
Theorem validate_nd_eq S X Z : validate_nd S X Z = validate (code_nd S X Z).
Proof. unfold validate_nd, validate, code_nd, logicals, vstack. cbn [stabs lxs lzs]. now rewrite stab_self_ok_eq, stab_log_ok_eq. Qed.

Theorem logicals_nd S X Z : logicals (code_nd S X Z) = vstack X Z.
Proof. reflexivity. Qed.

(* the number of logical rows is len(vstack), never len() of a 1-d operand (2n for an n-qubit vector) *)
Theorem len_vstack_1d x z : length (vstack (A1 x) (A1 z)) = 2.
Proof. reflexivity. Qed.
Example len_1d_is_not_k : len (A1 [true;true;false;false]) = 4 /\ length (atleast_2d (A1 [true;true;false;false])) = 1.
Proof. split; reflexivity. Qed.

(* a valid code stays valid, and an invalid one invalid with the same error, whichever of the operands are vectors *)
Corollary validate_nd_vectors s x z :
  validate_nd (A1 s) (A1 x) (A1 z) = validate (mkCode [s] [x] [z]) /\
  validate_nd (A2 [s]) (A1 x) (A2 [z]) = validate (mkCode [s] [x] [z]) /\
  validate_nd (A1 s) (A2 [x]) (A1 z) = validate (mkCode [s] [x] [z]).
Proof. repeat split; apply validate_nd_eq. Qed.
