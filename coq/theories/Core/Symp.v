(* Core/Symp.v — model of paulitools.bsp (vector, vector-matrix, matrix-matrix)
   and its agreement with letter-level anticommutation. *)
From Coq Require Import Arith List Bool Lia.
From QV Require Import Core.Bits Core.Pauli.
Import ListNotations.

(* bsp(a,b) = hstack((a2,a1)).dot(b) % 2 with a1,a2 = hsplit(a,2) *)
Definition swap_halves (a : bsf) : bsf := let '(a1, a2) := halves a in a2 ++ a1.
Definition bsp (a b : bsf) : bool := dot (swap_halves a) b.
(* matrix b given by rows (each row of length m): column extraction as numpy's dot does *)
Definition col (j : nat) (b : list bsf) : bsf := map (fun r => nth j r false) b.
Definition bsp_vm (a : bsf) (b : list bsf) (m : nat) : bsf :=
  map (fun j => dot (swap_halves a) (col j b)) (seq 0 m).
Definition bsp_mv (A : list bsf) (b : bsf) : bsf := map (fun a => bsp a b) A.
Definition bsp_mm (A : list bsf) (b : list bsf) (m : nat) : list bsf := map (fun a => bsp_vm a b m) A.
(* the ubiquitous call shape bsp(v, M.T) for a matrix M of row operators *)
Definition syndrome_of (stabs : list bsf) (e : bsf) : bsf := map (fun s => bsp e s) stabs.

Theorem bsp_is_anticommutation s t : length s = length t ->
  bsp (to_bsf s) (to_bsf t) = anticommutes s t.
Proof.
  intros H. unfold bsp, swap_halves. rewrite halves_to_bsf. unfold to_bsf.
  rewrite dot_app by now rewrite !map_length.
  revert t H. induction s as [|p s IH]; intros [|q t] H; cbn in *; try lia; auto.
  rewrite <- IH by lia.
  destruct p, q, (dot (map zbit s) (map xbit t)), (dot (map xbit s) (map zbit t)); reflexivity.
Qed.

Lemma halves_xorv a b : length a = length b ->
  halves (xorv a b) = (xorv (fst (halves a)) (fst (halves b)), xorv (snd (halves a)) (snd (halves b))).
Proof.
  intros H. unfold halves. rewrite xorv_length by auto. rewrite <- H. cbn [fst snd].
  generalize (length a / 2) as n. revert b H.
  induction a as [|x a IH]; intros [|y b] H n; cbn in *; try lia.
  - destruct n; reflexivity.
  - destruct n; cbn; [reflexivity|]. specialize (IH b ltac:(lia) n). injection IH as E1 E2. now rewrite E1, E2.
Qed.

Theorem bsp_linear_l a b c : length a = length b ->
  bsp (xorv a b) c = xorb (bsp a c) (bsp b c).
Proof.
  intros H. unfold bsp, swap_halves. rewrite halves_xorv by auto.
  destruct (halves a) as [a1 a2] eqn:Ea, (halves b) as [b1 b2] eqn:Eb. cbn [fst snd].
  assert (L2 : length a2 = length b2).
  { unfold halves in *. injection Ea as <- <-. injection Eb as <- <-. rewrite !skipn_length. now rewrite H. }
  assert (L1 : length a1 = length b1).
  { unfold halves in *. injection Ea as <- <-. injection Eb as <- <-. rewrite !firstn_length. now rewrite H. }
  rewrite <- xorv_app by auto. apply dot_xorv_l. rewrite !app_length. lia.
Qed.
Theorem bsp_linear_r a b c : length b = length c ->
  bsp a (xorv b c) = xorb (bsp a b) (bsp a c).
Proof. intros H. unfold bsp. now apply dot_xorv_r. Qed.

Theorem bsp_sym a b : length a = length b -> Nat.even (length a) = true -> bsp a b = bsp b a.
Proof.
  intros H Hev. unfold bsp, swap_halves, halves. rewrite <- H.
  apply Nat.even_spec in Hev. destruct Hev as [m Hm].
  replace (length a / 2) with m by (rewrite Hm, Nat.mul_comm, Nat.div_mul; lia).
  rewrite <- (firstn_skipn m a) at 3. rewrite <- (firstn_skipn m b) at 1.
  assert (La : length (firstn m a) = m) by (rewrite firstn_length; lia).
  assert (Lb : length (firstn m b) = m) by (rewrite firstn_length; lia).
  assert (Sa : length (skipn m a) = m) by (rewrite skipn_length; lia).
  assert (Sb : length (skipn m b) = m) by (rewrite skipn_length; lia).
  rewrite !dot_app by lia.
  rewrite (dot_comm (skipn m a)), (dot_comm (firstn m a)). apply xorb_comm.
Qed.

Theorem bsp_self_zero a : Nat.even (length a) = true -> bsp a a = false.
Proof.
  intros Hev. unfold bsp, swap_halves, halves.
  apply Nat.even_spec in Hev. destruct Hev as [m Hm].
  replace (length a / 2) with m by (rewrite Hm, Nat.mul_comm, Nat.div_mul; lia).
  rewrite <- (firstn_skipn m a) at 3.
  assert (La : length (firstn m a) = m) by (rewrite firstn_length; lia).
  assert (Sa : length (skipn m a) = m) by (rewrite skipn_length; lia).
  rewrite dot_app by lia. rewrite (dot_comm (skipn m a)). apply xorb_nilpotent.
Qed.

(* element-wise agreement of the three call shapes *)
Theorem bsp_vm_nth a b m j : j < m -> nth j (bsp_vm a b m) false = bsp a (col j b).
Proof.
  intros Hj. unfold bsp_vm, bsp. rewrite (nth_map_in _ _ _ _ 0) by now rewrite seq_length.
  now rewrite seq_nth.
Qed.
Theorem bsp_mv_nth A b i : i < length A -> nth i (bsp_mv A b) false = bsp (nth i A []) b.
Proof. intros Hi. unfold bsp_mv. now rewrite (nth_map_in _ _ _ _ []). Qed.
Theorem bsp_mm_nth A b m i j : i < length A -> j < m ->
  nth j (nth i (bsp_mm A b m) []) false = bsp (nth i A []) (col j b).
Proof.
  intros Hi Hj. unfold bsp_mm. rewrite (nth_map_in _ _ _ _ []) by auto. now apply bsp_vm_nth.
Qed.

Lemma syndrome_xorv stabs a b : length a = length b ->
  syndrome_of stabs (xorv a b) = xorv (syndrome_of stabs a) (syndrome_of stabs b).
Proof.
  intros H. unfold syndrome_of. induction stabs as [|s stabs IH]; cbn [map xorv]; auto.
  rewrite IH. f_equal. now apply bsp_linear_l.
Qed.
Lemma syndrome_length stabs e : length (syndrome_of stabs e) = length stabs.
Proof. apply map_length. Qed.
