Require Extraction.
Require Import ExtrOcamlBasic.
From Coq Require Import QArith Qreduction.
From QV Require Import App.Merge.
Definition row_rates (r : row) : Q * Q := (Qred (row_fr r), Qred (row_pr r)).
Extraction "c05.ml" merge row_rates mkRaw mkPay.
