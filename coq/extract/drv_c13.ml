open C13
open Drv
(*#include zconv*)
(* rationals: input "num/den" (decimal, OCaml int range); output "num/den" with binary digits ("-" sign) so that
   no size limit applies *)
(* big numbers: a token starting with 'b' (after an optional '-') is in binary digits, any size *)
let pos_of_bin s =
  let n = String.length s in
  let rec go acc i = if i >= n then acc else go (if s.[i] = '1' then XI acc else XO acc) (i + 1) in
  let rec first i = if i >= n then failwith "zero" else if s.[i] = '1' then i else first (i + 1) in
  let f = first 0 in go XH (f + 1)
let z_of_tok t =
  let neg = String.length t > 0 && t.[0] = '-' in
  let u = if neg then String.sub t 1 (String.length t - 1) else t in
  if String.length u > 0 && u.[0] = 'b' then
    let d = String.sub u 1 (String.length u - 1) in
    if String.contains d '1' then (if neg then Zneg (pos_of_bin d) else Zpos (pos_of_bin d)) else Z0
  else z_of_int (int_of_string t)
let pos_of_tok t =
  if String.length t > 0 && t.[0] = 'b' then pos_of_bin (String.sub t 1 (String.length t - 1)) else pos_of_int (int_of_string t)
let q_of_string s =
  match String.split_on_char '/' s with
  | [a; b] -> { qnum = z_of_tok a; qden = pos_of_tok b }
  | [a] -> { qnum = z_of_tok a; qden = XH }
  | _ -> failwith "badq"
let rec bin_of_pos p = match p with XH -> "1" | XO q -> bin_of_pos q ^ "0" | XI q -> bin_of_pos q ^ "1"
let bin_of_z = function Z0 -> "0" | Zpos p -> bin_of_pos p | Zneg p -> "-" ^ bin_of_pos p
let string_of_q q = let q = qred q in bin_of_z q.qnum ^ "/" ^ bin_of_pos q.qden
(* graph / ops: "a:b:num/den;..." ; matching: "a:b;..." ; "-" = empty *)
let entry_of_string s =
  match String.split_on_char ':' s with
  | [a; b; w] -> ((nat_of_int (int_of_string a), nat_of_int (int_of_string b)), q_of_string w)
  | _ -> failwith "badentry"
let graph_of_string s = List.map entry_of_string (split ';' s)
let pair_of_string s =
  match String.split_on_char ':' s with
  | [a; b] -> (nat_of_int (int_of_string a), nat_of_int (int_of_string b))
  | _ -> failwith "badpair"
let matching_of_string s = List.map pair_of_string (split ';' s)
let string_of_graph g =
  if g = [] then "-" else
  String.concat ";" (List.map (fun ((a, b), w) -> Printf.sprintf "%d:%d:%s" (int_of_nat a) (int_of_nat b) (string_of_q w)) g)
let string_of_matching m =
  if m = [] then "-" else String.concat ";" (List.map (fun (a, b) -> Printf.sprintf "%d:%d" (int_of_nat a) (int_of_nat b)) m)
(* histories on one SimpleGraph object (Decoders/MatchingHist.v): ops separated by ';'
   A:a:b:w add_edge | S:a:b:w g[(a,b)]=w | D:a:b del/pop | P popitem | U:a:b:w,a:b:w,.. update / |= | F:a:b:w setdefault | C clear *)
let hop_of_string s =
  let n = String.length s in
  if n = 0 then failwith "badhop" else
  let rest = if n >= 2 then String.sub s 2 (n - 2) else "" in
  match s.[0] with
  | 'A' -> let ((a, b), w) = entry_of_string rest in HAdd (a, b, w)
  | 'S' -> let (k, w) = entry_of_string rest in HSet (k, w)
  | 'D' -> HDel (pair_of_string rest)
  | 'P' -> HPopitem
  | 'U' -> HUpdate (List.map entry_of_string (split ',' rest))
  | 'F' -> let (k, w) = entry_of_string rest in HSetdefault (k, w)
  | 'C' -> HClear
  | _ -> failwith "badhop"
let b s = if s then "1" else "0"
let dispatch = function
  | ["build"; ops] ->
      let g = build (List.map (fun ((a, b), w) -> ((a, b), w)) (graph_of_string ops)) in string_of_graph g
  | ["build_steps"; ops] ->   (* contents after every prefix *)
      let ops = graph_of_string ops in
      let (_, acc) = List.fold_left (fun (g, acc) ((a, b), w) -> let g' = add_edge g a b w in (g', string_of_graph g' :: acc)) ([], []) ops in
      if acc = [] then "-" else String.concat "|" (List.rev acc)
  | ["check"; gs; ms] ->
      let g = graph_of_string gs and m = matching_of_string ms in
      let pms = all_pms g in
      let npm = List.length pms in
      let perf = is_perfect g m in
      let mn = is_min_pm g m in
      let wm = weight g m in
      (* a counter-matching for the replay record (not trusted: only reported) *)
      let better = List.filter (fun m' -> not (qle_bool wm (weight g m'))) pms in
      let distinct_w = List.exists (fun m' -> not (qle_bool (weight g m') wm && qle_bool wm (weight g m'))) pms in
      Printf.sprintf "npm=%d perfect=%s min=%s w=%s minw=%s counter=%s distinctw=%s" npm (b perf) (b mn) (string_of_q wm)
        (match min_pm_weight g with None -> "_" | Some w -> string_of_q w)
        (match better with [] -> "_" | m' :: _ -> string_of_matching m') (b distinct_w)
  | ["fcheck"; gs; ms] ->   (* the constant-space checker of Decoders/MatchingMin.v (is_min_pm_fast = is_min_pm): two passes
                               over the recursion of all_pms (verdict, count); the least weight only when the verdict is false *)
      let g = graph_of_string gs and m = matching_of_string ms in
      let perf = is_perfect g m in
      let mn = is_min_pm_fast g m in
      let wm = weight g m in
      Printf.sprintf "npm=%s perfect=%s min=%s w=%s minw=%s counter=_ distinctw=?"
        (match npms_fast g with N0 -> "0" | Npos p -> string_of_int (int_of_string ("0b" ^ bin_of_pos p))) (b perf) (b mn) (string_of_q wm)
        (if mn then string_of_q wm else match min_pm_weight_fast g with None -> "_" | Some w -> string_of_q w)
  | [("mcheck" | "mcheckd") as cmd; gs; ms] ->
      (* the memoised checker of Decoders/MatchingMemo.v on the graph scaled to integer weights (is_min_pm_big = is_min_pm);
         the count from the scaled graph (all_pms_scaleq); the least weight (weight_scaleq) only when the verdict is false;
         mcheckd: also distinctw, from the least weight of the negated graph (= minus the greatest) *)
      let g = graph_of_string gs and m = matching_of_string ms in
      let perf = is_perfect g m in
      let mn = is_min_pm_big g m in
      let wm = weight g m in
      let c = den_scale g in
      let sg = scaleq c g in
      let distinct = if cmd = "mcheck" then "?" else
        match min_pm_weight_memo sg, min_pm_weight_memo (negate sg) with
        | Some a, Some d -> b (not (qle_bool a (qopp d) && qle_bool (qopp d) a)) | _ -> "0" in
      Printf.sprintf "npm=%s perfect=%s min=%s w=%s minw=%s counter=_ distinctw=%s"
        (match npms_memo sg with N0 -> "0" | Npos p -> string_of_int (int_of_string ("0b" ^ bin_of_pos p))) (b perf) (b mn) (string_of_q wm)
        (if mn then string_of_q wm else match min_pm_weight_memo sg with None -> "_" | Some w -> string_of_q (qmult w (qinv c))) distinct
  | ["hist"; hs] ->   (* contents of the object after every operation of the history *)
      let (_, acc) = List.fold_left (fun (g, acc) o -> let g' = step g o in (g', string_of_graph g' :: acc)) ([], []) (List.map hop_of_string (split ';' hs)) in
      if acc = [] then "-" else String.concat "|" (List.rev acc)
  | ["npms"; gs] -> string_of_int (List.length (all_pms (graph_of_string gs)))
  | _ -> "ERR BadRequest"
let () = main dispatch
