Require Extraction.
Require Import ExtrOcamlBasic.
From QV Require Import Core.Bits Core.Pauli Core.Symp Core.Code Lattice.Planar Lattice.RotPlanar Lattice.Color
  Decoders.SampleRecovery Decoders.SampleRecoveryColor.
Extraction "samp.ml" planar_sample_recovery planar_sample_recovery_ord planar_mps_recovery p_to_bsf
  rotplanar_sample_recovery rotplanar_sample_recovery_ord rotplanar_mps_recovery rc_to_bsf
  color_sample_recovery color_sample_recovery_ord color_mps_recovery
  planar_code rotplanar_code color_code syndrome_of.
