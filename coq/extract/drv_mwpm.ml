open Mwpm
open Drv
(*#include zconv*)
let zi s = z_of_int (int_of_string s)
let iz = int_of_z
(* planar index "r:c", toric index "l:r:c"; lists separated by ';' ; mate pairs "a>b" *)
let idx_of_string s = match String.split_on_char ':' s with [r; c] -> (zi r, zi c) | _ -> failwith "badidx"
let tidx_of_string s = match String.split_on_char ':' s with [l; r; c] -> ((zi l, zi r), zi c) | _ -> failwith "badtidx"
let string_of_idx (r, c) = Printf.sprintf "%d:%d" (iz r) (iz c)
let string_of_tidx ((l, r), c) = Printf.sprintf "%d:%d:%d" (iz l) (iz r) (iz c)
let strlist f l = if l = [] then "-" else String.concat ";" (List.map f l)
let pair_of f s = match String.split_on_char '>' s with [a; b] -> (f a, f b) | _ -> failwith "badpair"
let dispatch = function
  | ["pnodes"; rows; cols; syn] ->
      let s = bits_of_string syn in
      strlist string_of_idx (primal_nodes (zi rows) (zi cols) s) ^ "|" ^ strlist string_of_idx (dual_nodes (zi rows) (zi cols) s)
  | ["prec"; rows; cols; m] ->
      (match mwpm_recovery (zi rows) (zi cols) (List.map (pair_of idx_of_string) (split ';' m)) with
       | Some r -> string_of_bits r | None -> "ERR IndexError")
  | ["tnodes"; rows; cols; syn] ->
      let s = bits_of_string syn in
      strlist string_of_tidx (lattice_defects (zi rows) (zi cols) Z0 s) ^ "|" ^
      strlist string_of_tidx (lattice_defects (zi rows) (zi cols) (Zpos XH) s)
  | ["trec"; rows; cols; m] ->
      (match toric_mwpm_recovery (zi rows) (zi cols) (List.map (pair_of tidx_of_string) (split ';' m)) with
       | Some r -> string_of_bits r | None -> "ERR IndexError")
  | ["pstabs"; rows; cols] -> string_of_rows (planar_code (zi rows) (zi cols)).stabs
  | ["tstabs"; rows; cols] -> string_of_rows (toric_code (zi rows) (zi cols)).stabs
  | _ -> "ERR BadRequest"
let () = main dispatch
