open C05
open Drv
(*#include zconv*)
let optzs s = if s = "_" then None else Some (zs_of_string s)
let str_optzs = function None -> "_" | Some l -> string_of_zs l
let string_of_q q = Printf.sprintf "%d/%d" (int_of_z q.qnum) (int_of_pos q.qden)
(* record: k1,..,k7 (T and q ids may be _) : n : Tval|_ : run : fail : succ : ewt : wall : lc|_|A : cv|_|A   (A = field absent) *)
let raw_of_string s =
  match String.split_on_char ':' s with
  | [ks; n; tv; run; fail; succ; ewt; wall; lc; cv] ->
      let k = Array.of_list (String.split_on_char ',' ks) in
      let id i = nat_of_int (int_of_string k.(i)) in
      let oid i = if k.(i) = "_" then None else Some (id i) in
      let zi x = z_of_int (int_of_string x) in
      { w_code = id 0; w_nkd = id 1; w_em = id 2; w_dec = id 3; w_p = id 4; w_T = oid 5; w_q = oid 6;
        w_n = zi n; w_Tval = (if tv = "_" then None else Some (zi tv));
        w_pay = { p_run = zi run; p_fail = zi fail; p_succ = zi succ; p_ewt = zi ewt; p_wall = zi wall;
                  p_lc = (if lc = "A" then None else optzs lc); p_cv = (if cv = "A" then None else optzs cv) };
        w_lc_present = (lc <> "A"); w_cv_present = (cv <> "A") }
  | _ -> failwith "badraw"
let dispatch = function
  | ["merge"; dt; dq; lists] ->
      let ls = List.map (fun l -> if l = "" || l = "-" then [] else List.map raw_of_string (String.split_on_char ';' l))
                 (String.split_on_char '|' lists) in
      (match merge (nat_of_int (int_of_string dt)) (nat_of_int (int_of_string dq)) ls with
       | None -> "ERR ValueError"
       | Some rows ->
           if rows = [] then "-" else
           String.concat ";" (List.map (fun r ->
             let p = r.row_pay in
             let (fr, pr) = row_rates r in
             Printf.sprintf "%s:%d:%d:%d:%d:%d:%s:%s:%s:%s"
               (String.concat "," (List.map (fun x -> string_of_int (int_of_nat x)) r.row_key))
               (int_of_z p.p_run) (int_of_z p.p_fail) (int_of_z p.p_succ) (int_of_z p.p_ewt) (int_of_z p.p_wall)
               (str_optzs p.p_lc) (str_optzs p.p_cv) (string_of_q fr) (string_of_q pr)) rows))
  | _ -> "ERR BadRequest"
let () = main dispatch
