open Samp
open Drv
(*#include zconv*)
let zi s = z_of_int (int_of_string s)
let iz = int_of_z
(* index "a:b" (planar, colour: r:c, rotated planar: x:y); lists separated by ';' ("-" = empty) *)
let idx_of_string s = match String.split_on_char ':' s with [r; c] -> (zi r, zi c) | _ -> failwith "badidx"
let coset_of_string = function "I" -> CI | "X" -> CX | "Y" -> CY | "Z" -> CZ | _ -> failwith "badcoset"
let dispatch = function
  | ["psample"; rows; cols; syn] ->
      (match planar_sample_recovery (zi rows) (zi cols) (bits_of_string syn) with
       | Some p -> string_of_bits (p_to_bsf p) | None -> "ERR IndexError")
  | ["psampleord"; rows; cols; l] ->
      (match planar_sample_recovery_ord (zi rows) (zi cols) (List.map idx_of_string (split ';' l)) with
       | Some p -> string_of_bits (p_to_bsf p) | None -> "ERR IndexError")
  | ["pdecode"; rows; cols; c; syn] ->
      (match planar_mps_recovery (zi rows) (zi cols) (coset_of_string c) (bits_of_string syn) with
       | Some r -> string_of_bits r | None -> "ERR IndexError")
  | ["rsample"; rows; cols; syn] ->
      string_of_bits (rc_to_bsf (rotplanar_sample_recovery (zi rows) (zi cols) (bits_of_string syn)))
  | ["rsampleord"; rows; cols; l] ->
      string_of_bits (rc_to_bsf (rotplanar_sample_recovery_ord (zi rows) (zi cols) (List.map idx_of_string (split ';' l))))
  | ["rdecode"; rows; cols; c; syn] ->
      string_of_bits (rotplanar_mps_recovery (zi rows) (zi cols) (coset_of_string c) (bits_of_string syn))
  | ["csample"; size; syn] ->
      (match color_sample_recovery (zi size) (bits_of_string syn) with
       | Some p -> string_of_bits (rc_to_bsf p) | None -> "ERR IndexError")
  | ["csampleord"; size; lx; lz] ->
      (match color_sample_recovery_ord (zi size) (List.map idx_of_string (split ';' lx)) (List.map idx_of_string (split ';' lz)) with
       | Some p -> string_of_bits (rc_to_bsf p) | None -> "ERR IndexError")
  | ["cdecode"; size; c; syn] ->
      (match color_mps_recovery (zi size) (coset_of_string c) (bits_of_string syn) with
       | Some r -> string_of_bits r | None -> "ERR IndexError")
  | ["cstabs"; size] -> string_of_rows (color_code (zi size)).stabs
  | ["pstabs"; rows; cols] -> string_of_rows (planar_code (zi rows) (zi cols)).stabs
  | ["rstabs"; rows; cols] -> string_of_rows (rotplanar_code (zi rows) (zi cols)).stabs
  | ["psyn"; rows; cols; e] -> string_of_bits (syndrome_of (planar_code (zi rows) (zi cols)).stabs (bits_of_string e))
  | ["rsyn"; rows; cols; e] -> string_of_bits (syndrome_of (rotplanar_code (zi rows) (zi cols)).stabs (bits_of_string e))
  | _ -> "ERR BadRequest"
let () = main dispatch
