Require Extraction.
Require Import ExtrOcamlBasic.
From Coq Require Import QArith.
From QV Require Import ErrorModels.DistQ.
Extraction "c16.ml" depolarizing bit_flip phase_flip bit_phase_flip biased biased_yx yx_disc slice
  normalize neg_lim ratio dist_red vec_red biased_ctor yx_ctor slice_ctor slice_ctor_unsigned Qred.
