Require Extraction.
Require Import ExtrOcamlBasic.
From QV Require Import Core.Bits Core.Pauli Core.Symp Core.Enum Core.Pack.
Extraction "c09.ml" to_bsf of_bsf to_bsf_list of_bsf_list pauli_wt pauli_wt_list bsf_wt bsf_wt_rows
  bsp bsp_vm bsp_mv bsp_mm ipauli ibsf pack unpack anticommutes pmul xorv.
