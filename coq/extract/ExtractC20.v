Require Extraction.
Require Import ExtrOcamlBasic.
From QV Require Import Core.Bits Core.Pauli Core.Symp Core.Code Core.CodeP Core.CodeNd.
Extraction "c20.ml" validate logicals mkCode to_bsf_list decode_result_ok validate_fast validate_nd code_of.
