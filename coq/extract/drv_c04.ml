open C04
open Drv
(*#include zconv*)
let optzs s = if s = "_" then None else Some (zs_of_string s)
let str_optzs = function None -> "_" | Some l -> string_of_zs l
let optnat s = if s = "_" then None else Some (nat_of_int (int_of_string s))
let string_of_q q = Printf.sprintf "%d/%d" (int_of_z q.qnum) (int_of_pos q.qden)
let run_of_string s =
  match String.split_on_char ':' s with
  | [su; lc; cv; w] -> { r_success = (su = "1"); r_lc = optzs lc; r_cv = optzs cv; r_w = z_of_int (int_of_string w) }
  | _ -> failwith "badrun"
let dispatch = function
  | ["run"; mr; mf; n; t; hist] ->
      let runs = Array.of_list (List.map run_of_string (String.split_on_char ';' hist)) in
      let dflt = { r_success = true; r_lc = None; r_cv = None; r_w = Z0 } in
      let outs i = let k = int_of_nat i in if k < Array.length runs then runs.(k) else dflt in
      (match run_loop (nat_of_int (Array.length runs + 1)) (optnat mr) (optnat mf) outs with
       | OutOfFuel -> "OUTOFFUEL"
       | Mismatch m -> Printf.sprintf "ERR QecsimError %d" (int_of_nat m)
       | Done a ->
           let (((pv, fr), pr), tot) = stats (z_of_int (int_of_string n)) (z_of_int (int_of_string t)) a in
           Printf.sprintf "done %d %d %d %s %s %d %s %s %s" (int_of_nat a.a_run) (int_of_nat a.a_run - int_of_nat a.a_fail)
             (int_of_nat a.a_fail) (str_optzs a.a_lc) (str_optzs a.a_cv) (int_of_z tot)
             (string_of_q pv) (string_of_q fr) (string_of_q pr))
  | _ -> "ERR BadRequest"
let () = main dispatch
