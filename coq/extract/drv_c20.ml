open C20
open Drv
let vres = function VOk -> "Ok" | VErrStab -> "ErrStab" | VErrStabLog -> "ErrStabLog" | VErrSplit -> "ErrSplit" | VErrLog -> "ErrLog"
let dispatch = function
  | ["validate"; s; x; z] -> vres (validate { stabs = rows_of_string s; lxs = rows_of_string x; lzs = rows_of_string z })
  | ["logicals"; x; z] -> string_of_rows (logicals { stabs = []; lxs = rows_of_string x; lzs = rows_of_string z })
  | ["dr_ok"; s; r] -> if decode_result_ok (if s = "_" then None else Some ()) (if r = "_" then None else Some ()) then "1" else "0"
  | _ -> "ERR BadRequest"
let () = main dispatch
