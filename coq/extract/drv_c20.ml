open C20
open Drv
let vres = function VOk -> "Ok" | VErrStab -> "ErrStab" | VErrStabLog -> "ErrStabLog" | VErrSplit -> "ErrSplit" | VErrLog -> "ErrLog"
(* shape flag '1' = the property returns a 1-d vector (exactly one row given), '2' = a 2-d matrix *)
let nd flag s =
  let rows = rows_of_string s in
  if flag = '1' then (match rows with [v] -> A1 v | _ -> failwith "1-d operand needs exactly one row") else A2 rows
(* codes DEFINED BY PAULI STRINGS (BasicCode): comma separated words over IXYZ; the model converts the strings
   itself (Core/CodeP.code_of = mkCode (map to_bsf ..)), validates, and publishes the matrices and the stacked logicals *)
let pl_of_char = function 'I' -> PI | 'X' -> PX | 'Y' -> PY | 'Z' -> PZ | _ -> failwith "letter"
let pstrs s = List.map (fun w -> List.init (String.length w) (fun i -> pl_of_char w.[i])) (split ',' s)
let dispatch = function
  | ["basic"; s; x; z] ->
      let c = code_of (pstrs s) (pstrs x) (pstrs z) in
      String.concat "|" [vres (validate c); string_of_rows c.stabs; string_of_rows c.lxs; string_of_rows c.lzs;
                         string_of_rows (logicals c)]
  | ["validate"; s; x; z] -> vres (validate { stabs = rows_of_string s; lxs = rows_of_string x; lzs = rows_of_string z })
  | ["vfast"; s; x; z] -> vres (validate_fast { stabs = rows_of_string s; lxs = rows_of_string x; lzs = rows_of_string z })
  | ["validate_nd"; f; s; x; z] when String.length f = 3 -> vres (validate_nd (nd f.[0] s) (nd f.[1] x) (nd f.[2] z))
  | ["logicals"; x; z] -> string_of_rows (logicals { stabs = []; lxs = rows_of_string x; lzs = rows_of_string z })
  | ["dr_ok"; s; r] -> if decode_result_ok (if s = "_" then None else Some ()) (if r = "_" then None else Some ()) then "1" else "0"
  | _ -> "ERR BadRequest"
let () = main dispatch
