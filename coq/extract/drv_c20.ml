open C20
open Drv
let vres = function VOk -> "Ok" | VErrStab -> "ErrStab" | VErrStabLog -> "ErrStabLog" | VErrSplit -> "ErrSplit" | VErrLog -> "ErrLog"
(* shape flag '1' = the property returns a 1-d vector (exactly one row given), '2' = a 2-d matrix *)
let nd flag s =
  let rows = rows_of_string s in
  if flag = '1' then (match rows with [v] -> A1 v | _ -> failwith "1-d operand needs exactly one row") else A2 rows
let dispatch = function
  | ["validate"; s; x; z] -> vres (validate { stabs = rows_of_string s; lxs = rows_of_string x; lzs = rows_of_string z })
  | ["vfast"; s; x; z] -> vres (validate_fast { stabs = rows_of_string s; lxs = rows_of_string x; lzs = rows_of_string z })
  | ["validate_nd"; f; s; x; z] when String.length f = 3 -> vres (validate_nd (nd f.[0] s) (nd f.[1] x) (nd f.[2] z))
  | ["logicals"; x; z] -> string_of_rows (logicals { stabs = []; lxs = rows_of_string x; lzs = rows_of_string z })
  | ["dr_ok"; s; r] -> if decode_result_ok (if s = "_" then None else Some ()) (if r = "_" then None else Some ()) then "1" else "0"
  | _ -> "ERR BadRequest"
let () = main dispatch
