Require Extraction.
Require Import ExtrOcamlBasic.
From QV Require Import Core.Bits Core.Pauli Core.Symp Core.Code App.RunOnce.
Extraction "c01.ml" run_once_model validate_once validate_once_ftp validate_run_ftp q_default.
