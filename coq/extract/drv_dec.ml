open Dec
open Drv
(*#include zconv*)
(* named matrices are kept between requests: "mat <name> <rows>" *)
let mats : (string, bool list list) Hashtbl.t = Hashtbl.create 64
let mat name = try Hashtbl.find mats name with Not_found -> failwith ("nomat:" ^ name)
(* a decoder answer as digits: '0' -> 0, '1' -> 1, anything else (non-binary entry) -> 2 *)
let zs_of_digits s =
  if s = "-" then [] else List.init (String.length s) (fun i -> match s.[i] with '0' -> Z0 | '1' -> Zpos XH | _ -> Zpos (XO XH))
let bases : (string, bentry list) Hashtbl.t = Hashtbl.create 64
let basis name = try Hashtbl.find bases name with Not_found -> let b = basis_of (mat name) in Hashtbl.replace bases name b; b
let bit s = s = "1"
let dispatch = function
  | ["mat"; name; rows] -> Hashtbl.replace mats name (rows_of_string rows); Hashtbl.remove bases name; "ok"
  | ["rok"; name; n; r; s] ->
      if recovery_ok (mat name) (nat_of_int (int_of_string n)) (zs_of_digits r) (bits_of_string s) then "1" else "0"
  | ["rokftp"; name; n; r; rows] ->
      if recovery_ok_ftp (mat name) (nat_of_int (int_of_string n)) (zs_of_digits r) (rows_of_string rows) then "1" else "0"
  | ["syn"; name; v] -> string_of_bits (syndrome_of (mat name) (bits_of_string v))
  | ["span"; name; n2; v] ->
      (match in_span (nat_of_int (int_of_string n2)) (mat name) (bits_of_string v) with
       | Some c -> string_of_bits c | None -> "_")
  | ["spanb"; name; n2; v] ->   (* same decision with the elimination basis computed once per matrix *)
      (match in_span_with (basis name) (nat_of_int (int_of_string n2)) (mat name) (bits_of_string v) with
       | Some c -> string_of_bits c | None -> "_")
  | ["nospan"; name; w; v] -> if not_in_span_cert (mat name) (bits_of_string w) (bits_of_string v) then "1" else "0"
  | ["rank"; name] -> string_of_int (int_of_nat (rank (mat name)))
  | ["naive"; name; n; mq; s] ->
      let mq = if mq = "_" then None else Some (nat_of_int (int_of_string mq)) in
      (match naive_decode mq (mat name) (nat_of_int (int_of_string n)) (bits_of_string s) with
       | NValueError -> "ERR ValueError"
       | NOk None -> "_"
       | NOk (Some r) -> string_of_bits r)
  | ["wt"; v] -> string_of_int (int_of_nat (bsf_wt (bits_of_string v)))
  | ["tpd"; itp; t; sme; sx; sz; cx; cz; mx; mz] ->
      (match tparity_decide (bit itp) (z_of_int (int_of_string t)) (bit sme) (bit sx) (bit sz) (bit cx) (bit cz) (bit mx) (bit mz) with
       | TPError -> "E"
       | TPResult (su, cv) -> (match su with None -> "_" | Some true -> "1" | Some false -> "0") ^ " " ^ string_of_bits cv)
  | ["tp"; t; a; b] ->
      if tparity (z_of_int (int_of_string t)) (z_of_int (int_of_string a)) (z_of_int (int_of_string b)) then "1" else "0"
  | ["basic"; "five"] -> string_of_rows five_stabs
  | ["basic"; "steane"] -> string_of_rows steane_stabs
  | _ -> "ERR BadRequest"
let () = main dispatch
