Require Extraction.
Require Import ExtrOcamlBasic.
From QV Require Import Core.Bits Core.Pauli Core.Symp Core.Code Lattice.Planar Lattice.Toric Decoders.PlanarMwpm Decoders.ToricMwpm
  Decoders.MwpmGraph.
Extraction "c14g.ml" primal_graph dual_graph toric_graph primal_nodes dual_nodes lattice_defects planar_code toric_code syndrome_of
  distance tdistance.
