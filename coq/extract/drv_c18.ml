open C18
open Drv
(*#include zconv*)
(* Line protocol of the C18 engine (FileErrorModel state machine).
   request : scn <file> <start> <clash> <calls>      (also scn_s: stream formulation)
     file   : '!' (cannot be opened) | '-' (no lines) | lines joined by ';'
              line = K (comment/blank) | B (bad JSON) | H{..} (dict) | V<jvalue>
     jvalue : n | t | f | i<sign><hex> | d<sign><hex>/<hex> | dnan | dinf | d-inf
              | s<hex code points joined by '.'> | [v,v,..] | {s..:v,s..:v}
     start  : i<sign><hex> | x
     clash  : '-' | names (hex code points joined by '.') joined by ','
     calls  : '-' | calls joined by ';' : G<n>:<p> | D<p> | L | A<name> ; p = d.. | o
   reply  : OK:<extra names> | ERR:<class> | OOD   followed by one token per call:
            B<bits> | T[..] | L<jvalue> | A<jvalue> | E<class> | OOD *)

(* ---- big numbers as hex <-> positive ---- *)
let hexv c = match c with
  | '0'..'9' -> Char.code c - 48 | 'a'..'f' -> Char.code c - 87 | 'A'..'F' -> Char.code c - 55
  | _ -> failwith "badhex"
let bits_of_hex s =  (* MSB first, leading zeros dropped *)
  let l = ref [] in
  String.iter (fun c -> let v = hexv c in
    l := ((v land 1) <> 0) :: ((v land 2) <> 0) :: ((v land 4) <> 0) :: ((v land 8) <> 0) :: !l) s;
  let rec drop = function false :: r -> drop r | x -> x in
  drop (List.rev !l)
let pos_of_hex s = match bits_of_hex s with
  | [] -> failwith "zero"
  | _ :: r -> List.fold_left (fun p b -> if b then XI p else XO p) XH r
let n_of_hex s = match bits_of_hex s with [] -> N0 | _ -> Npos (pos_of_hex s)
let rec lsb_bits = function XH -> [true] | XO p -> false :: lsb_bits p | XI p -> true :: lsb_bits p
let hex_of_pos p =
  let rec go acc = function
    | [] -> acc
    | a :: r -> let b, r = (match r with x :: r' -> x, r' | [] -> false, []) in
                let c, r = (match r with x :: r' -> x, r' | [] -> false, []) in
                let d, r = (match r with x :: r' -> x, r' | [] -> false, []) in
                let v = (if a then 1 else 0) + (if b then 2 else 0) + (if c then 4 else 0) + (if d then 8 else 0) in
                go (Printf.sprintf "%x" v ^ acc) r in
  go "" (lsb_bits p)
let hex_of_n = function N0 -> "0" | Npos p -> hex_of_pos p
let z_of_shex s =  (* <sign><hex> *)
  let body = String.sub s 1 (String.length s - 1) in
  match bits_of_hex body with
  | [] -> Z0
  | _ -> if s.[0] = '-' then Zneg (pos_of_hex body) else Zpos (pos_of_hex body)
let shex_of_z = function Z0 -> "+0" | Zpos p -> "+" ^ hex_of_pos p | Zneg p -> "-" ^ hex_of_pos p

let str_of_codes s = if s = "" then [] else List.map n_of_hex (String.split_on_char '.' s)
let codes_of_str l = String.concat "." (List.map hex_of_n l)

let num_of_string s =  (* after the leading 'd' *)
  if s = "nan" then NNaN else if s = "inf" then NPInf else if s = "-inf" then NNInf
  else match String.split_on_char '/' s with
    | [a; b] -> NFin (z_of_shex a, pos_of_hex b)
    | _ -> failwith "badnum"
let string_of_num = function
  | NNaN -> "nan" | NPInf -> "inf" | NNInf -> "-inf"
  | NFin (a, b) -> shex_of_z a ^ "/" ^ hex_of_pos b

(* ---- jvalue parser / printer ---- *)
let parse_jvalue (s : string) (pos : int ref) : jvalue =
  let len = String.length s in
  let peek () = if !pos < len then s.[!pos] else '\000' in
  let atom () =  (* characters up to a delimiter *)
    let st = !pos in
    while !pos < len && not (String.contains "[]{},:;" s.[!pos]) do incr pos done;
    String.sub s st (!pos - st) in
  let rec value () =
    match peek () with
    | '[' -> incr pos;
        if peek () = ']' then (incr pos; JList [])
        else begin
          let items = ref [value ()] in
          while peek () = ',' do incr pos; items := value () :: !items done;
          if peek () <> ']' then failwith "badlist"; incr pos; JList (List.rev !items)
        end
    | '{' -> JDict (dict ())
    | _ ->
        let a = atom () in
        if a = "" then failwith "emptyatom" else
        let body = String.sub a 1 (String.length a - 1) in
        (match a.[0] with
         | 'n' -> JNull | 't' -> JBool true | 'f' -> JBool false
         | 'i' -> JInt (z_of_shex body)
         | 'd' -> JFloat (num_of_string body)
         | 's' -> JStr (str_of_codes body)
         | _ -> failwith "badatom")
  and dict () =
    if peek () <> '{' then failwith "baddict"; incr pos;
    if peek () = '}' then (incr pos; [])
    else begin
      let pair () =
        let k = atom () in
        if k = "" || k.[0] <> 's' then failwith "badkey";
        if peek () <> ':' then failwith "badpair"; incr pos;
        let v = value () in (str_of_codes (String.sub k 1 (String.length k - 1)), v) in
      let items = ref [pair ()] in
      while peek () = ',' do incr pos; items := pair () :: !items done;
      if peek () <> '}' then failwith "baddict2"; incr pos; List.rev !items
    end in
  value ()
let jvalue_of_string s = let pos = ref 0 in let v = parse_jvalue s pos in
  if !pos <> String.length s then failwith "trailing" else v
let rec string_of_jvalue = function
  | JNull -> "n" | JBool true -> "t" | JBool false -> "f"
  | JInt z -> "i" ^ shex_of_z z
  | JFloat x -> "d" ^ string_of_num x
  | JStr s -> "s" ^ codes_of_str s
  | JList l -> "[" ^ String.concat "," (List.map string_of_jvalue l) ^ "]"
  | JDict kv -> "{" ^ String.concat "," (List.map (fun (k, v) -> "s" ^ codes_of_str k ^ ":" ^ string_of_jvalue v) kv) ^ "}"

let line_of_string s =
  if s = "K" then Skip else if s = "B" then BadJson
  else match s.[0] with
    | 'H' -> (match jvalue_of_string (String.sub s 1 (String.length s - 1)) with JDict kv -> Hdr kv | _ -> failwith "badhdr")
    | 'V' -> (match jvalue_of_string (String.sub s 1 (String.length s - 1)) with
              | JDict kv -> Hdr kv          (* a dict line is a header line by definition *)
              | v -> Body v)
    | _ -> failwith "badline"
let file_of_string s =
  if s = "!" then None else if s = "-" then Some [] else Some (List.map line_of_string (String.split_on_char ';' s))
let start_of_string s = if s = "x" then StBad else StInt (z_of_shex (String.sub s 1 (String.length s - 1)))
let names_of_string s = if s = "-" then [] else List.map str_of_codes (String.split_on_char ',' s)
let parg_of_string s = if s = "o" then POther else PNum (num_of_string (String.sub s 1 (String.length s - 1)))
let call_of_string s =
  let body = String.sub s 1 (String.length s - 1) in
  match s.[0] with
  | 'G' -> (match String.split_on_char ':' body with
            | [n; p] -> CGen (nat_of_int (int_of_string n), parg_of_string p)
            | _ -> failwith "badgen")
  | 'D' -> CDist (parg_of_string body)
  | 'L' -> CLabel
  | 'A' -> CAttr (str_of_codes body)
  | _ -> failwith "badcall"
let calls_of_string s = if s = "-" then [] else List.map call_of_string (String.split_on_char ';' s)

let string_of_exn = function
  | EOFError -> "EOFError" | ValueError -> "ValueError" | TypeError -> "TypeError"
  | JSONDecodeError -> "Other:JSONDecodeError" | FileNotFoundError -> "Other:FileNotFoundError"
  | AttributeError -> "Other:AttributeError"
let string_of_outcome = function
  | OBits b -> "B" ^ string_of_bits b
  | OTuple l -> "T" ^ string_of_jvalue (JList l)
  | OLabel v -> "L" ^ string_of_jvalue v
  | OAttr v -> "A" ^ string_of_jvalue v
  | OErr e -> "E" ^ string_of_exn e
  | OOod -> "OOD"
let string_of_trace (i, outs) =
  let head = (match i with
    | Ok names -> "OK:" ^ (if names = [] then "-" else String.concat "," (List.map codes_of_str names))
    | Err e -> "ERR:" ^ string_of_exn e
    | Ood -> "OOD") in
  String.concat " " (head :: List.map string_of_outcome outs)

let dispatch = function
  | ["scn"; f; st; cl; cs] ->
      string_of_trace (scenario (file_of_string f) (start_of_string st) (names_of_string cl) (calls_of_string cs))
  | ["scn_s"; f; st; cl; cs] ->
      string_of_trace (scenario_s (file_of_string f) (start_of_string st) (names_of_string cl) (calls_of_string cs))
  | ["unpack"; v] ->
      (match unpack_obj (match jvalue_of_string v with JDict kv -> ODict kv | x -> OVal x) with
       | Ok b -> "B" ^ string_of_bits b | Err e -> "E" ^ string_of_exn e | Ood -> "OOD")
  | ["attr_re"; k] -> if attr_re (str_of_codes k) then "1" else "0"
  | ["echo"; v] -> string_of_jvalue (jvalue_of_string v)
  | _ -> "ERR BadRequest"
let () = main dispatch
