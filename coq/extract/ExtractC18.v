Require Extraction.
Require Import ExtrOcamlBasic.
From QV Require Import Core.Bits Core.Pack ErrorModels.FileModel.
Extraction "c18.ml" scenario scenario_s unpack_obj attr_re.
