Require Extraction.
Require Import ExtrOcamlBasic.
From Coq Require Import QArith.
From QV Require Import Core.Bits Core.Pauli ErrorModels.Generate.
Extraction "c17.ml" generate gen_letters flips run_stream choice cdf Qred.
