(* line-protocol driver for the planar / toric lattice models (engine latpt).
   Bit vectors are written as hex strings (MSB first, left-padded with zero bits to a multiple of 4);
   planar indices are r:c, toric indices l:r:c, lists are comma separated, "-" is the empty list. *)
open Latpt
open Drv
(*#include zconv*)
let hex_of_bits l =
  let n = List.length l in
  if n = 0 then "-" else begin
    let pad = (4 - n mod 4) mod 4 in
    let a = Array.make (n + pad) false in
    List.iteri (fun i b -> a.(pad + i) <- b) l;
    let m = (n + pad) / 4 in
    String.init m (fun j ->
      let v = (if a.(4*j) then 8 else 0) + (if a.(4*j+1) then 4 else 0) + (if a.(4*j+2) then 2 else 0) + (if a.(4*j+3) then 1 else 0) in
      "0123456789abcdef".[v])
  end
let bits_of_hex len s =
  if s = "-" then [] else begin
    let m = String.length s in
    let all = List.concat (List.init m (fun j ->
      let v = int_of_string ("0x" ^ String.make 1 s.[j]) in
      [v land 8 <> 0; v land 4 <> 0; v land 2 <> 0; v land 1 <> 0])) in
    let rec drop k l = if k <= 0 then l else (match l with [] -> [] | _ :: r -> drop (k - 1) r) in
    drop (4 * m - len) all
  end
let hexrows l = if l = [] then "-" else String.concat "," (List.map hex_of_bits l)
let zi s = z_of_int (int_of_string s)
let iz = int_of_z
let idx2 s = match String.split_on_char ':' s with [r; c] -> (zi r, zi c) | _ -> failwith "badidx2"
let idx3 s = match String.split_on_char ':' s with [l; r; c] -> ((zi l, zi r), zi c) | _ -> failwith "badidx3"
let s_idx2 (r, c) = Printf.sprintf "%d:%d" (iz r) (iz c)
let s_idx3 ((l, r), c) = Printf.sprintf "%d:%d:%d" (iz l) (iz r) (iz c)
let s_list f l = if l = [] then "-" else String.concat "," (List.map f l)
let pl_of_string = function "I" -> PI | "X" -> PX | "Y" -> PY | "Z" -> PZ | _ -> failwith "badop"
let s_pl = function PI -> "I" | PX -> "X" | PY -> "Y" | PZ -> "Z"
let s_nkd ((n, k), d) = Printf.sprintf "%d,%d,%d" (iz n) (iz k) (iz d)
let arg s = match String.split_on_char ':' s with
  | ["i"; v] -> AInt (zi v) | ["b"; v] -> ABool (v = "1") | ["f"] -> AFloat | ["s"] -> AStr | ["n"] -> ANone
  | _ -> failwith "badarg"
let s_cres = function COk -> "Ok" | CValueError -> "ValueError" | CTypeError -> "TypeError"
let pair2 s = match String.split_on_char '>' s with [a; b] -> (idx2 a, idx2 b) | _ -> failwith "badpair"
let pair3 s = match String.split_on_char '>' s with [a; b] -> (idx3 a, idx3 b) | _ -> failwith "badpair"
let dispatch = function
  | ["pcode"; r; c] ->
      let r = zi r and c = zi c in
      let cd = planar_code r c in
      String.concat " " [s_nkd (planar_n_k_d r c); hexrows cd.stabs; hexrows cd.lxs; hexrows cd.lzs;
                         s_list s_idx2 (plaquette_indices r c); s_list s_idx2 (virtual_indices r c)]
  | ["tcode"; r; c] ->
      let r = zi r and c = zi c in
      let cd = toric_code r c in
      String.concat " " [s_nkd (toric_n_k_d r c); hexrows cd.stabs; hexrows cd.lxs; hexrows cd.lzs;
                         s_list s_idx3 (tindices r c)]
  | ["pplaq"; r; c; l] ->
      let r = zi r and c = zi c in
      s_list (fun s -> match plaquette r c (idx2 s) (new_pauli r c) with Some p -> hex_of_bits (p_to_bsf p) | None -> "E") (split ',' l)
  | ["psite"; r; c; op; l] ->
      let r = zi r and c = zi c in
      s_list (fun s -> match site_api r c (pl_of_string op) (idx2 s) (new_pauli r c) with Some p -> hex_of_bits (p_to_bsf p) | None -> "E") (split ',' l)
  | ["pop"; r; c; len; b; l] ->
      let r = zi r and c = zi c in
      let p = p_of_bsf (bits_of_hex (int_of_string len) b) in
      s_list (fun s -> match operator r c (idx2 s) p with Some o -> s_pl o | None -> "E") (split ',' l)
  | ["ppath"; r; c; l] ->
      let r = zi r and c = zi c in
      s_list (fun s -> let (a, b) = pair2 s in
        match path r c a b (new_pauli r c), planar_translation r c a b, distance r c a b with
        | Some p, Some (rs, cs), Some d -> Printf.sprintf "%s;%d:%d;%d" (hex_of_bits (p_to_bsf p)) (iz rs) (iz cs) (iz d)
        | None, None, None -> "E"
        | _ -> "ERR inconsistent") (split ',' l)
  | ["pvirt"; r; c; l] ->
      let r = zi r and c = zi c in
      s_list (fun s -> match planar_virtual_plaquette_index r c (idx2 s) with Some v -> s_idx2 v | None -> "E") (split ',' l)
  | ["psynd"; r; c; b] -> s_list s_idx2 (syndrome_to_plaquette_indices (zi r) (zi c) (bits_of_string b))
  | ["pctor"; a; b] -> s_cres (planar_ctor (arg a) (arg b))
  | ["tplaq"; r; c; l] ->
      let r = zi r and c = zi c in
      s_list (fun s -> hex_of_bits (p_to_bsf (tplaquette r c (idx3 s) (tnew_pauli r c)))) (split ',' l)
  | ["tsite"; r; c; op; l] ->
      let r = zi r and c = zi c in
      s_list (fun s -> hex_of_bits (p_to_bsf (tsite r c (pl_of_string op) (idx3 s) (tnew_pauli r c)))) (split ',' l)
  | ["top"; r; c; len; b; l] ->
      let r = zi r and c = zi c in
      let p = p_of_bsf (bits_of_hex (int_of_string len) b) in
      s_list (fun s -> s_pl (toperator r c (idx3 s) p)) (split ',' l)
  | ["tpath"; r; c; l] ->
      let r = zi r and c = zi c in
      s_list (fun s -> let (a, b) = pair3 s in
        match tpath r c a b (tnew_pauli r c), toric_translation r c a b, tdistance r c a b with
        | Some p, Some (rs, cs), Some d -> Printf.sprintf "%s;%d:%d;%d" (hex_of_bits (p_to_bsf p)) (iz rs) (iz cs) (iz d)
        | None, None, None -> "E"
        | _ -> "ERR inconsistent") (split ',' l)
  | ["tsynd"; r; c; b] -> s_list s_idx3 (tsyndrome_to_plaquette_indices (zi r) (zi c) (bits_of_string b))
  | ["tctor"; a; b] -> s_cres (toric_ctor (arg a) (arg b))
  | _ -> "ERR BadRequest"
let () = main dispatch
