Require Extraction.
Require Import ExtrOcamlBasic.
From Coq Require Import List ZArith.
From QV Require Import Tensor.StartStop Tensor.MpsDims.
Definition start_stop_bools12 (l : list bool) : option (nat * nat) :=
  start_stop (map (fun b : bool => if b then Some tt else None) l).
Extraction "c12.ml" lcf_dims rcf_dims truncate_dims truncate_guard_d reverse_dims bond_dimension_d start_stop_bools12.
