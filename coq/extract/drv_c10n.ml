open C10n
open Drv
(*#include zconv*)
(* line protocol of the planar coset-network engine (model: Tensor/PlanarNetZ.v).
   Requests  <cmd> rows cols f pI pX pY pZ   with f the sample Pauli as bsf bits and the distribution as four signed-hex
   integer numerators over a common denominator (as drv_c10.ml):
     net    -> "R C site site ..."  R*C sites of tn[row, col] in row-major order; a site is "_" (None) or
               "n.e.s.w:v,v,..." (shape, then all entries in C order as signed hex)
     vals   -> "sweep fwd bwd tsweep split tsplit"  untruncated contraction: step None / 1 / -1, transposed network,
               split before the last column, transposed split before the last row ("None" if not a scalar)
     sweep  -> the first of these only
     value  -> Net.value (specification value; exponential, small sizes only)
     coset  -> coset_prob over Planar.stabilizers (2^(n-1) terms, small sizes only) *)
let pos_of_hex s =
  let bits = Buffer.create (4 * String.length s) in
  String.iter (fun ch ->
      let v = int_of_string ("0x" ^ String.make 1 ch) in
      List.iter (fun k -> Buffer.add_char bits (if (v lsr k) land 1 = 1 then '1' else '0')) [3; 2; 1; 0]) s;
  let b = Buffer.contents bits in
  let n = String.length b in
  let i = ref 0 in
  while !i < n && b.[!i] = '0' do incr i done;
  if !i >= n then failwith "zero";
  let p = ref XH in
  for j = !i + 1 to n - 1 do p := (if b.[j] = '1' then XI !p else XO !p) done;
  !p
let z_of_hex s =
  let neg = String.length s > 0 && s.[0] = '-' in
  let s = if neg then String.sub s 1 (String.length s - 1) else s in
  let s = if String.length s > 2 && s.[0] = '0' && (s.[1] = 'x' || s.[1] = 'X') then String.sub s 2 (String.length s - 2) else s in
  if String.for_all (fun c -> c = '0') s then Z0 else if neg then Zneg (pos_of_hex s) else Zpos (pos_of_hex s)
let hex_of_pos p =
  let rec bits acc = function XH -> 1 :: acc | XO p -> bits (0 :: acc) p | XI p -> bits (1 :: acc) p in
  let b = Array.of_list (List.rev (bits [] p)) in
  let n = Array.length b in
  let nd = (n + 3) / 4 in
  let buf = Bytes.create nd in
  for d = 0 to nd - 1 do
    let v = ref 0 in
    for k = 3 downto 0 do
      let i = 4 * d + k in
      v := 2 * !v + (if i < n then b.(i) else 0)
    done;
    Bytes.set buf (nd - 1 - d) "0123456789abcdef".[!v]
  done;
  Bytes.to_string buf
let hex_of_z = function Z0 -> "0x0" | Zpos p -> "0x" ^ hex_of_pos p | Zneg p -> "-0x" ^ hex_of_pos p
let string_of_site = function
  | None -> "_"
  | Some ((((a, b), c), d), vs) ->
      Printf.sprintf "%d.%d.%d.%d:%s" (int_of_nat a) (int_of_nat b) (int_of_nat c) (int_of_nat d)
        (String.concat "," (List.map hex_of_z vs))
let optz = function None -> "None" | Some z -> hex_of_z z
let zi s = z_of_int (int_of_string s)
let dist pi px py pz = (((z_of_hex pi, z_of_hex px), z_of_hex py), z_of_hex pz)
let dispatch = function
  | ["net"; rows; cols; f; pi; px; py; pz] ->
      let (r, c) = planar_shapeZ (zi rows) (zi cols) in
      let sites = planar_sitesZ (dist pi px py pz) (zi rows) (zi cols) (bits_of_string f) in
      Printf.sprintf "%d %d %s" (int_of_nat r) (int_of_nat c)
        (String.concat " " (List.concat_map (fun row -> List.map string_of_site row) sites))
  | ["vals"; rows; cols; f; pi; px; py; pz] ->
      let a = dist pi px py pz and rows = zi rows and cols = zi cols and f = bits_of_string f in
      let (r, c) = planar_shapeZ rows cols in
      String.concat " " (List.map optz
        [planar_sweepZ a rows cols f None; planar_sweepZ a rows cols f (Some (z_of_int 1));
         planar_sweepZ a rows cols f (Some (z_of_int (-1))); planar_tsweepZ a rows cols f;
         planar_splitZ a rows cols f (z_of_int (int_of_nat c - 1)); planar_tsplitZ a rows cols f (z_of_int (int_of_nat r - 1))])
  | ["sweep"; rows; cols; f; pi; px; py; pz] ->
      optz (planar_sweepZ (dist pi px py pz) (zi rows) (zi cols) (bits_of_string f) None)
  | ["value"; rows; cols; f; pi; px; py; pz] ->
      hex_of_z (planar_valueZ (dist pi px py pz) (zi rows) (zi cols) (bits_of_string f))
  | ["coset"; rows; cols; f; pi; px; py; pz] ->
      hex_of_z (planar_cosetZ (dist pi px py pz) (zi rows) (zi cols) (bits_of_string f))
  | _ -> "ERR BadRequest"
let () = main dispatch
