open Latrc
open Drv
(*#include zconv*)
(* decimal string (optionally negative, arbitrarily long) -> extracted Z *)
let z_of_string s =
  let neg = String.length s > 0 && s.[0] = '-' in
  let ten = z_of_int 10 in
  let acc = ref Z0 in
  String.iteri (fun i ch -> if i = 0 && neg then () else
    acc := Z.add (Z.mul !acc ten) (z_of_int (Char.code ch - 48))) s;
  if neg then Z.opp !acc else !acc
let zi s = z_of_int (int_of_string s)
let pl_of_char = function 'I' -> PI | 'X' -> PX | 'Y' -> PY | 'Z' -> PZ | c -> failwith (Printf.sprintf "badletter:%c" c)
let string_of_pl = function PI -> "I" | PX -> "X" | PY -> "Y" | PZ -> "Z"
let string_of_idx (a, b) = Printf.sprintf "%d:%d" (int_of_z a) (int_of_z b)
let string_of_idxs l = if l = [] then "-" else String.concat "," (List.map string_of_idx l)
let idx_of_string s = match String.split_on_char ':' s with [a; b] -> (zi a, zi b) | _ -> failwith "badidx"
let idxs_of_string s = List.map idx_of_string (split ',' s)
let nkd ((n, k), d) = Printf.sprintf "%d,%d,%d" (int_of_z n) (int_of_z k) (int_of_z d)
let code_str c = string_of_rows c.stabs ^ " " ^ string_of_rows c.lxs ^ " " ^ string_of_rows c.lzs
let arg_of_string s =
  match s.[0] with
  | 'i' -> RInt (z_of_string (String.sub s 1 (String.length s - 1)))
  | 'b' -> RBool (s = "bT")
  | 'f' -> RFloat | 's' -> RStr | 'n' -> RNone
  | _ -> failwith "badarg"
let ctor_str = function ROk -> "Ok" | RValueError -> "ValueError" | RTypeError -> "TypeError"
exception Index_error
let some = function Some x -> x | None -> raise Index_error
(* operation scripts: comma separated; S<op>:a:b site, P:a:b / P<op>:a:b plaquette, L.. logicals, T:ax:ay:bx:by path *)
let rp_apply r c p tok =
  match String.split_on_char ':' tok with
  | [s; a; b] when s.[0] = 'S' -> rp_site r c (pl_of_char s.[1]) (zi a, zi b) p
  | ["P"; a; b] -> rp_plaquette r c (zi a, zi b) p
  | ["LX"] -> rp_logical_x r c p
  | ["LZ"] -> rp_logical_z r c p
  | _ -> failwith "badop"
let rt_apply r c p tok =
  match String.split_on_char ':' tok with
  | [s; a; b] when s.[0] = 'S' -> rt_site r c (pl_of_char s.[1]) (zi a, zi b) p
  | ["P"; a; b] -> rt_plaquette r c (zi a, zi b) p
  | ["LX1"] -> rt_logical_x1 r c p
  | ["LX2"] -> rt_logical_x2 r c p
  | ["LZ1"] -> rt_logical_z1 r c p
  | ["LZ2"] -> rt_logical_z2 r c p
  | ["T"; ax; ay; bx; by] -> some (rt_path r c (zi ax, zi ay) (zi bx, zi by) p)
  | _ -> failwith "badop"
let c6_apply s p tok =
  match String.split_on_char ':' tok with
  | [o; a; b] when o.[0] = 'S' -> some (c6_site s (pl_of_char o.[1]) (zi a, zi b) p)
  | [o; a; b] when o.[0] = 'P' -> some (c6_plaquette s (pl_of_char o.[1]) (zi a, zi b) p)
  | ["LX"] -> some (c6_logical s PX p)
  | ["LZ"] -> some (c6_logical s PZ p)
  | _ -> failwith "badop"
let run_ops apply p ops = List.fold_left apply p (split ',' ops)
let guard f = try f () with Index_error -> "ERR IndexError"
let dispatch = function
  (* rotated planar *)
  | ["rp_code"; r; c] -> code_str (rotplanar_code (zi r) (zi c))
  | ["rp_nkd"; r; c] -> nkd (rotplanar_n_k_d (zi r) (zi c))
  | ["rp_pidx"; r; c] -> string_of_idxs (rp_plaquette_indices (zi r) (zi c))
  | ["rp_sidx"; r; c] -> string_of_idxs (rp_site_indices (zi r) (zi c))
  | ["rp_ops"; r; c; ops] -> let r, c = zi r, zi c in string_of_bits (rc_to_bsf (run_ops (rp_apply r c) (rp_identity r c) ops))
  | ["rp_opsfrom"; r; c; b; ops] -> let r, c = zi r, zi c in
      string_of_bits (rc_to_bsf (run_ops (rp_apply r c) (rc_of_bsf (bits_of_string b)) ops))
  | ["rp_operator"; r; c; b; x; y] -> let r, c = zi r, zi c in
      (match rp_operator r c (zi x, zi y) (rc_of_bsf (bits_of_string b)) with Some l -> string_of_pl l | None -> "ERR IndexError")
  | ["rp_synd"; r; c; s] -> string_of_idxs (rp_syndrome_to_plaquette_indices (zi r) (zi c) (bits_of_string s))
  | ["rp_ctor"; a; b] -> ctor_str (rp_ctor (arg_of_string a) (arg_of_string b))
  (* rotated toric *)
  | ["rt_code"; r; c] -> code_str (rottoric_code (zi r) (zi c))
  | ["rt_nkd"; r; c] -> nkd (rottoric_n_k_d (zi r) (zi c))
  | ["rt_pidx"; r; c] -> string_of_idxs (rt_plaquette_indices (zi r) (zi c))
  | ["rt_ops"; r; c; ops] -> let r, c = zi r, zi c in
      guard (fun () -> string_of_bits (rc_to_bsf (run_ops (rt_apply r c) (rt_identity r c) ops)))
  | ["rt_operator"; r; c; b; x; y] -> let r, c = zi r, zi c in
      string_of_pl (rt_operator r c (zi x, zi y) (rc_of_bsf (bits_of_string b)))
  | ["rt_synd"; r; c; s] -> string_of_idxs (rt_syndrome_to_plaquette_indices (zi r) (zi c) (bits_of_string s))
  | ["rt_ctor"; a; b] -> ctor_str (rt_ctor (arg_of_string a) (arg_of_string b))
  | ["rt_pathsfrom"; r; c; ax; ay; bs] -> let r, c = zi r, zi c in let a = (zi ax, zi ay) in let id = rt_identity r c in
      String.concat "," (List.map (fun b -> match rt_path r c a b id with
                                            | Some p -> string_of_bits (rc_to_bsf p) | None -> "E") (idxs_of_string bs))
  | ["rt_pathidx"; r; c; ax; ay; bx; by] ->
      (match rt_path_indices (zi r) (zi c) (zi ax, zi ay) (zi bx, zi by) with Some l -> string_of_idxs l | None -> "ERR IndexError")
  | ["rt_transfrom"; r; c; ax; ay; bs] -> let r, c = zi r, zi c in let a = (zi ax, zi ay) in
      String.concat "," (List.map (fun b -> match rt_translation r c a b with
                                            | Some t -> string_of_idx t | None -> "E") (idxs_of_string bs))
  (* colour 6.6.6 *)
  | ["c6_code"; s] -> code_str (color_code (zi s))
  | ["c6_nkd"; s] -> nkd (color_n_k_d (zi s))
  | ["c6_pidx"; s] -> string_of_idxs (c6_plaquette_indices (zi s))
  | ["c6_sidx"; s] -> string_of_idxs (c6_site_indices (zi s))
  | ["c6_ops"; s; ops] -> let s = zi s in guard (fun () -> string_of_bits (rc_to_bsf (run_ops (c6_apply s) (c6_identity s) ops)))
  | ["c6_operator"; s; b; r; c] ->
      (match c6_operator (zi s) (zi r, zi c) (rc_of_bsf (bits_of_string b)) with Some l -> string_of_pl l | None -> "ERR IndexError")
  | ["c6_synd"; s; b] -> let (x, z) = c6_syndrome_to_plaquette_indices (zi s) (bits_of_string b) in
      string_of_idxs x ^ " " ^ string_of_idxs z
  | ["c6_flats"; l] -> String.concat "," (List.map (fun i -> string_of_int (int_of_z (c6_flatten i))) (idxs_of_string l))
  | ["c6_flats_q"; l] -> String.concat "," (List.map (fun i -> string_of_int (int_of_z (c6_flatten_q i))) (idxs_of_string l))
  | ["c6_virt"; s; r; c] ->
      (match color_virtual_plaquette_index (zi s) (zi r, zi c) with Some i -> string_of_idx i | None -> "ERR IndexError")
  | ["c6_ctor"; a] -> ctor_str (c6_ctor (arg_of_string a))
  | _ -> "ERR BadRequest"
let () = main dispatch
