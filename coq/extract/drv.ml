(* shared helpers for the line-protocol drivers: tokens are space separated;
   bit vectors are strings of 0/1 ("-" = empty), lists use ',' and ';' *)
let split c s = if s = "-" || s = "" then [] else String.split_on_char c s
let bits_of_string s = if s = "-" then [] else List.init (String.length s) (fun i -> s.[i] = '1')
let string_of_bits l = if l = [] then "-" else String.concat "" (List.map (fun b -> if b then "1" else "0") l)
let rows_of_string s = List.map bits_of_string (split ',' s)
let string_of_rows l = if l = [] then "-" else String.concat "," (List.map string_of_bits l)
let mats_of_string s = List.map rows_of_string (split ';' s)
let rec list_init_fold f = function [] -> () | x :: r -> f x; list_init_fold f r
let main (dispatch : string list -> string) =
  let buf = Buffer.create 65536 in
  (try
    while true do
      let line = input_line stdin in
      let toks = List.filter (fun t -> t <> "") (String.split_on_char ' ' line) in
      let out = (try dispatch toks with
                 | Stack_overflow -> "ERR StackOverflow"
                 | Not_found -> "ERR NotFound"
                 | Failure m -> "ERR Failure:" ^ m
                 | Invalid_argument m -> "ERR Invalid:" ^ m) in
      Buffer.add_string buf out; Buffer.add_char buf '\n';
      if Buffer.length buf > 60000 then (print_string (Buffer.contents buf); Buffer.clear buf)
    done
  with End_of_file -> ());
  print_string (Buffer.contents buf); flush stdout
