open C12
open Drv
(*#include zconv*)
(* shapes: sites joined by '|', "_" = None, "n.e.s.w"; "-" = empty MPS *)
let site_of_string s =
  if s = "_" then None else
  match List.map int_of_string (String.split_on_char '.' s) with
  | [a; b; c; d] -> Some (((nat_of_int a, nat_of_int b), nat_of_int c), nat_of_int d)
  | _ -> failwith "shape"
let mps_of_string s = if s = "-" then [] else List.map site_of_string (String.split_on_char '|' s)
let string_of_site = function
  | None -> "_"
  | Some (((a, b), c), d) -> Printf.sprintf "%d.%d.%d.%d" (int_of_nat a) (int_of_nat b) (int_of_nat c) (int_of_nat d)
let string_of_mps l = if l = [] then "-" else String.concat "|" (List.map string_of_site l)
let optz s = if s = "_" then None else Some (z_of_int (int_of_string s))
let mask s = if s = "_" then None else Some (bits_of_string s)
let res = function None -> "ERR ValueError" | Some l -> string_of_mps l
let dispatch = function
  | ["lcf"; m; chi; qr; mk] -> res (lcf_dims (optz chi) (qr = "1") (mask mk) (mps_of_string m))
  | ["rcf"; m; chi; qr; mk] -> res (rcf_dims (optz chi) (qr = "1") (mask mk) (mps_of_string m))
  | ["truncate"; m; chi; mk] ->
      let x = mps_of_string m in
      (match truncate_dims (optz chi) (mask mk) x with
       | None -> "ERR ValueError"
       | Some l -> if truncate_guard_d (optz chi) (mask mk) x then string_of_mps l else "ID")
  | ["reverse"; m] -> string_of_mps (reverse_dims (mps_of_string m))
  | ["bond"; m] -> string_of_int (int_of_nat (bond_dimension_d (mps_of_string m)))
  | ["startstop"; b] ->
      (match start_stop_bools12 (bits_of_string b) with
       | None -> "ERR ValueError" | Some (a, b) -> Printf.sprintf "%d %d" (int_of_nat a) (int_of_nat b))
  | _ -> "ERR BadRequest"
let () = main dispatch
