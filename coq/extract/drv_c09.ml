open C09
open Drv
let rec nat_of_int n = if n <= 0 then O else S (nat_of_int (n - 1))
let rec int_of_nat = function O -> 0 | S m -> 1 + int_of_nat m
let pl_of_char = function 'I' -> PI | 'X' -> PX | 'Y' -> PY | 'Z' -> PZ | c -> failwith (Printf.sprintf "badletter:%c" c)
let char_of_pl = function PI -> 'I' | PX -> 'X' | PY -> 'Y' | PZ -> 'Z'
let pstr_of_string s = if s = "-" then [] else List.init (String.length s) (fun i -> pl_of_char s.[i])
let string_of_pstr l = if l = [] then "-" else String.of_seq (List.to_seq (List.map char_of_pl l))
let pstrs_of_string s = List.map pstr_of_string (split ',' s)
let string_of_pstrs l = if l = [] then "-" else String.concat "," (List.map string_of_pstr l)
let bit b = if b then "1" else "0"
let hexdigit (((a, b), c), d) =
  let v = (if a then 8 else 0) + (if b then 4 else 0) + (if c then 2 else 0) + (if d then 1 else 0) in
  Printf.sprintf "%x" v
let nibble_of_char ch =
  let v = int_of_string ("0x" ^ String.make 1 ch) in
  ((((v land 8) <> 0, (v land 4) <> 0), (v land 2) <> 0), (v land 1) <> 0)
(* shape-carrying operands and results (degenerate shapes cannot be told apart in the comma protocol):
   operand  v:<bits> (vector)  |  m:<r>x<c>:<flat bits, row major> (matrix);  "-" = no bits
   result   s:<bit>  |  v:<len>:<bits>  |  m:<r>x<c>:<flat>  with c = "*" when there is no row to measure
   strings  s:<pauli>  |  l:<count>:<p1,p2,...>   ("-" = the empty string) *)
type opnd = V of bool list | M of int * int * bool list list
let rec take n l = if n = 0 then [] else (match l with [] -> failwith "short" | x :: r -> x :: take (n - 1) r)
let rec drop n l = if n = 0 then l else (match l with [] -> failwith "short" | _ :: r -> drop (n - 1) r)
let rec chunk r c l = if r = 0 then (if l = [] then [] else failwith "long") else take c l :: chunk (r - 1) c (drop c l)
let parse_opnd s = match String.split_on_char ':' s with
  | ["v"; b] -> V (bits_of_string b)
  | ["m"; sh; b] -> (match String.split_on_char 'x' sh with
      | [r; c] -> let r = int_of_string r and c = int_of_string c in M (r, c, chunk r c (bits_of_string b))
      | _ -> failwith "badshape")
  | _ -> failwith "badoperand"
let show_vec l = Printf.sprintf "v:%d:%s" (List.length l) (string_of_bits l)
let show_mat rows =
  let c = match rows with [] -> "*" | x :: _ -> string_of_int (List.length x) in
  List.iter (fun x -> if List.length x <> List.length (List.hd rows) then failwith "ragged") rows;
  Printf.sprintf "m:%dx%s:%s" (List.length rows) c (string_of_bits (List.concat rows))
let parse_strs s = match String.split_on_char ':' s with
  | ["s"; p] -> `S (pstr_of_string p)
  | ["l"; n; ps] -> let n = int_of_string n in
      let l = if n = 0 then [] else List.map pstr_of_string (String.split_on_char ',' ps) in
      if List.length l <> n then failwith "badcount" else `L l
  | _ -> failwith "badstrings"
let show_strs l = Printf.sprintf "l:%d:%s" (List.length l) (if l = [] then "-" else String.concat "," (List.map string_of_pstr l))
let dispatch = function
  | ["to_bsf"; s] -> string_of_bits (to_bsf (pstr_of_string s))
  | ["of_bsf"; b] -> string_of_pstr (of_bsf (bits_of_string b))
  | ["to_bsf_list"; s] -> string_of_rows (to_bsf_list (pstrs_of_string s))
  | ["of_bsf_list"; b] -> string_of_pstrs (of_bsf_list (rows_of_string b))
  | ["pauli_wt"; s] -> string_of_int (int_of_nat (pauli_wt (pstr_of_string s)))
  | ["pauli_wt_list"; s] -> string_of_int (int_of_nat (pauli_wt_list (pstrs_of_string s)))
  | ["bsf_wt"; b] -> string_of_int (int_of_nat (bsf_wt (bits_of_string b)))
  | ["bsf_wt_rows"; b] -> string_of_int (int_of_nat (bsf_wt_rows (rows_of_string b)))
  | ["bsp"; a; b] -> bit (bsp (bits_of_string a) (bits_of_string b))
  | ["bsp_vm"; a; b; m] -> string_of_bits (bsp_vm (bits_of_string a) (rows_of_string b) (nat_of_int (int_of_string m)))
  | ["bsp_mv"; a; b] -> string_of_bits (bsp_mv (rows_of_string a) (bits_of_string b))
  | ["bsp_mm"; a; b; m] -> string_of_rows (bsp_mm (rows_of_string a) (rows_of_string b) (nat_of_int (int_of_string m)))
  | ["ipauli"; n; lo; hi] ->
      string_of_pstrs (ipauli (nat_of_int (int_of_string n)) (nat_of_int (int_of_string lo)) (nat_of_int (int_of_string hi)))
  | ["ibsf"; n; lo; hi] ->
      string_of_rows (ibsf (nat_of_int (int_of_string n)) (nat_of_int (int_of_string lo)) (nat_of_int (int_of_string hi)))
  | ["pack"; b] -> let (h, len) = pack (bits_of_string b) in
      (if h = [] then "-" else String.concat "" (List.map hexdigit h)) ^ " " ^ string_of_int (int_of_nat len)
  | ["unpack"; h; len] ->
      let hs = if h = "-" then [] else List.init (String.length h) (fun i -> nibble_of_char h.[i]) in
      (match unpack (hs, nat_of_int (int_of_string len)) with Some v -> string_of_bits v | None -> "ERR ValueError")
  | ["anticommutes"; s; t] -> bit (anticommutes (pstr_of_string s) (pstr_of_string t))
  | ["pmul"; s; t] -> string_of_pstr (pmul (pstr_of_string s) (pstr_of_string t))
  | ["xorv"; a; b] -> string_of_bits (xorv (bits_of_string a) (bits_of_string b))
  | ["xbsp"; a; b] -> (match parse_opnd a, parse_opnd b with   (* numpy dot's dispatch on the number of dimensions *)
      | V a, V b -> "s:" ^ bit (bsp a b)
      | V a, M (_, k, rows) -> show_vec (bsp_vm a rows (nat_of_int k))
      | M (_, _, rows), V b -> show_vec (bsp_mv rows b)
      | M (_, _, ra), M (_, k, rb) -> show_mat (bsp_mm ra rb (nat_of_int k)))
  | ["xbsf_wt"; a] -> (match parse_opnd a with
      | V a -> string_of_int (int_of_nat (bsf_wt a))
      | M (_, _, rows) -> string_of_int (int_of_nat (bsf_wt_rows rows)))
  | ["xof_bsf"; a] -> (match parse_opnd a with
      | V a -> "s:" ^ string_of_pstr (of_bsf a)
      | M (_, _, rows) -> show_strs (of_bsf_list rows))
  | ["xto_bsf"; s] -> (match parse_strs s with
      | `S p -> show_vec (to_bsf p)
      | `L l -> show_mat (to_bsf_list l))
  | ["xpauli_wt"; s] -> (match parse_strs s with
      | `S p -> string_of_int (int_of_nat (pauli_wt p))
      | `L l -> string_of_int (int_of_nat (pauli_wt_list l)))
  | ["xipauli"; n; lo; hi] ->
      show_strs (ipauli (nat_of_int (int_of_string n)) (nat_of_int (int_of_string lo)) (nat_of_int (int_of_string hi)))
  | ["xibsf"; n; lo; hi] ->
      show_mat (ibsf (nat_of_int (int_of_string n)) (nat_of_int (int_of_string lo)) (nat_of_int (int_of_string hi)))
  | _ -> "ERR BadRequest"
let () = main dispatch
