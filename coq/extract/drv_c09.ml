open C09
open Drv
let rec nat_of_int n = if n <= 0 then O else S (nat_of_int (n - 1))
let rec int_of_nat = function O -> 0 | S m -> 1 + int_of_nat m
let pl_of_char = function 'I' -> PI | 'X' -> PX | 'Y' -> PY | 'Z' -> PZ | c -> failwith (Printf.sprintf "badletter:%c" c)
let char_of_pl = function PI -> 'I' | PX -> 'X' | PY -> 'Y' | PZ -> 'Z'
let pstr_of_string s = if s = "-" then [] else List.init (String.length s) (fun i -> pl_of_char s.[i])
let string_of_pstr l = if l = [] then "-" else String.of_seq (List.to_seq (List.map char_of_pl l))
let pstrs_of_string s = List.map pstr_of_string (split ',' s)
let string_of_pstrs l = if l = [] then "-" else String.concat "," (List.map string_of_pstr l)
let bit b = if b then "1" else "0"
let hexdigit (((a, b), c), d) =
  let v = (if a then 8 else 0) + (if b then 4 else 0) + (if c then 2 else 0) + (if d then 1 else 0) in
  Printf.sprintf "%x" v
let nibble_of_char ch =
  let v = int_of_string ("0x" ^ String.make 1 ch) in
  ((((v land 8) <> 0, (v land 4) <> 0), (v land 2) <> 0), (v land 1) <> 0)
let dispatch = function
  | ["to_bsf"; s] -> string_of_bits (to_bsf (pstr_of_string s))
  | ["of_bsf"; b] -> string_of_pstr (of_bsf (bits_of_string b))
  | ["to_bsf_list"; s] -> string_of_rows (to_bsf_list (pstrs_of_string s))
  | ["of_bsf_list"; b] -> string_of_pstrs (of_bsf_list (rows_of_string b))
  | ["pauli_wt"; s] -> string_of_int (int_of_nat (pauli_wt (pstr_of_string s)))
  | ["pauli_wt_list"; s] -> string_of_int (int_of_nat (pauli_wt_list (pstrs_of_string s)))
  | ["bsf_wt"; b] -> string_of_int (int_of_nat (bsf_wt (bits_of_string b)))
  | ["bsf_wt_rows"; b] -> string_of_int (int_of_nat (bsf_wt_rows (rows_of_string b)))
  | ["bsp"; a; b] -> bit (bsp (bits_of_string a) (bits_of_string b))
  | ["bsp_vm"; a; b; m] -> string_of_bits (bsp_vm (bits_of_string a) (rows_of_string b) (nat_of_int (int_of_string m)))
  | ["bsp_mv"; a; b] -> string_of_bits (bsp_mv (rows_of_string a) (bits_of_string b))
  | ["bsp_mm"; a; b; m] -> string_of_rows (bsp_mm (rows_of_string a) (rows_of_string b) (nat_of_int (int_of_string m)))
  | ["ipauli"; n; lo; hi] ->
      string_of_pstrs (ipauli (nat_of_int (int_of_string n)) (nat_of_int (int_of_string lo)) (nat_of_int (int_of_string hi)))
  | ["ibsf"; n; lo; hi] ->
      string_of_rows (ibsf (nat_of_int (int_of_string n)) (nat_of_int (int_of_string lo)) (nat_of_int (int_of_string hi)))
  | ["pack"; b] -> let (h, len) = pack (bits_of_string b) in
      (if h = [] then "-" else String.concat "" (List.map hexdigit h)) ^ " " ^ string_of_int (int_of_nat len)
  | ["unpack"; h; len] ->
      let hs = if h = "-" then [] else List.init (String.length h) (fun i -> nibble_of_char h.[i]) in
      (match unpack (hs, nat_of_int (int_of_string len)) with Some v -> string_of_bits v | None -> "ERR ValueError")
  | ["anticommutes"; s; t] -> bit (anticommutes (pstr_of_string s) (pstr_of_string t))
  | ["pmul"; s; t] -> string_of_pstr (pmul (pstr_of_string s) (pstr_of_string t))
  | ["xorv"; a; b] -> string_of_bits (xorv (bits_of_string a) (bits_of_string b))
  | _ -> "ERR BadRequest"
let () = main dispatch
