Require Extraction.
Require Import ExtrOcamlBasic.
From Coq Require Import List ZArith.
From QV Require Import Core.Bits Tensor.Sums Tensor.Coset.
Definition coset_probZ (pi px py pz : Z) (n : nat) (gens : list bsf) (f : bsf) : Z :=
  coset_prob Zring (pi, px, py, pz) n gens f.
Definition probZ (pi px py pz : Z) (n : nat) (v : bsf) : Z := prob Zring (pi, px, py, pz) n v.
Definition h_nodeZ (pi px py pz : Z) fx fz n e s w : Z := h_node Zring (pi, px, py, pz) fx fz n e s w.
Definition v_nodeZ (pi px py pz : Z) fx fz n e s w : Z := v_node Zring (pi, px, py, pz) fx fz n e s w.
Definition delta_valZ (dims idx : list nat) : Z := delta_val Zring dims idx.
Definition span_count (len : nat) (gens : list bsf) : nat := length (span_list len gens).
Extraction "c10.ml" coset_probZ probZ h_nodeZ v_nodeZ ml_choice span_count delta_valZ.
