open C01
open Drv
(*#include zconv*)
let q_of_string s =  (* "a/b" *)
  match String.split_on_char '/' s with
  | [a; b] -> { qnum = z_of_int (int_of_string a); qden = pos_of_int (int_of_string b) }
  | [a] -> { qnum = z_of_int (int_of_string a); qden = XH }
  | _ -> failwith "badq"
let prob_of_string s = if s = "nan" then None else Some (q_of_string s)
let string_of_q q = Printf.sprintf "%d/%d" (int_of_z q.qnum) (int_of_pos q.qden)
let optbits s = if s = "_" then None else Some (bits_of_string s)
let optzs s = if s = "_" then None else Some (zs_of_string s)
let answer_of_string s =
  match String.split_on_char ':' s with
  | ["B"; r] -> Bare (optbits r)
  | ["D"; su; lc; r; cv] ->
      DR ((match su with "_" -> None | "1" -> Some true | _ -> Some false), optzs lc, optbits r, optzs cv)
  | _ -> failwith "badanswer"
let perr = function None -> "ok" | Some PErrSteps -> "steps" | Some PErrProb -> "prob" | Some PErrMeasProb -> "mprob"
let optq s = if s = "_" then None else Some (prob_of_string s)
let dispatch = function
  | ["run_once"; st; lx; lz; errs; ms; qt; a] ->
      let c = { stabs = rows_of_string st; lxs = rows_of_string lx; lzs = rows_of_string lz } in
      let (syn, d) = run_once_model c (rows_of_string errs) (rows_of_string ms) (qt = "1") (answer_of_string a) in
      string_of_rows syn ^ " " ^
      (match d with
       | None -> "ERR QecsimError"
       | Some d -> Printf.sprintf "%s %s %s %d" (if d.d_success then "1" else "0")
                     (match d.d_lc with None -> "_" | Some l -> string_of_zs l)
                     (match d.d_cv with None -> "_" | Some l -> string_of_zs l) (int_of_nat d.d_weight))
  | ["validate_once"; p] -> perr (validate_once (prob_of_string p))
  | ["validate_once_ftp"; t; p; q] -> perr (validate_once_ftp (z_of_int (int_of_string t)) (prob_of_string p) (optq q))
  | ["validate_run_ftp"; t; p; q] -> perr (validate_run_ftp (z_of_int (int_of_string t)) (prob_of_string p) (optq q))
  | ["q_default"; t; p; q] ->
      string_of_q (q_default (z_of_int (int_of_string t)) (q_of_string p) (if q = "_" then None else Some (q_of_string q)))
  | _ -> "ERR BadRequest"
let () = main dispatch
