Require Extraction.
Require Import ExtrOcamlBasic.
From Coq Require Import List ZArith QArith.
From QV Require Import Tensor.Sums Tensor.Net Tensor.StartStop Tensor.Contract Tensor.ContractZ.
Extraction "c11.ml" mk_tensorZ dimsZ entriesZ contractZ contract_bondsZ valueZ inner_productZ contract_pairwiseZ
  contract_ladderZ as_scalarZ transpose_netZ truncateZ bond_dimensionZ start_stop_bools slice_indices py_range split_contractZ netwfbZ.
