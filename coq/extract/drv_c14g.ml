open C14g
open Drv
(*#include zconv*)
(* the matching graph of the MWPM decoders (Decoders/MwpmGraph.v): edges "a>b=w" in add_edge order, ';' separated,
   the two lattices separated by '|'; planar index "r:c", toric index "l:r:c"; weight "E" = IndexError *)
let zi s = z_of_int (int_of_string s)
let iz = int_of_z
let string_of_idx (r, c) = Printf.sprintf "%d:%d" (iz r) (iz c)
let string_of_tidx ((l, r), c) = Printf.sprintf "%d:%d:%d" (iz l) (iz r) (iz c)
let idx_of_string s = match String.split_on_char ':' s with [r; c] -> (zi r, zi c) | _ -> failwith "badidx"
let tidx_of_string s = match String.split_on_char ':' s with [l; r; c] -> ((zi l, zi r), zi c) | _ -> failwith "badtidx"
let strlist f l = if l = [] then "-" else String.concat ";" (List.map f l)
let wstr = function Some w -> string_of_int (iz w) | None -> "E"
let edge f ((a, b), w) = f a ^ ">" ^ f b ^ "=" ^ wstr w
let dispatch = function
  | ["pgraph"; rows; cols; syn] ->
      let s = bits_of_string syn in
      strlist (edge string_of_idx) (primal_graph (zi rows) (zi cols) s) ^ "|" ^ strlist (edge string_of_idx) (dual_graph (zi rows) (zi cols) s)
  | ["tgraph"; rows; cols; syn] ->
      let s = bits_of_string syn in
      strlist (edge string_of_tidx) (toric_graph (zi rows) (zi cols) Z0 s) ^ "|" ^
      strlist (edge string_of_tidx) (toric_graph (zi rows) (zi cols) (Zpos XH) s)
  | ["pnodes"; rows; cols; syn] ->
      let s = bits_of_string syn in
      strlist string_of_idx (primal_nodes (zi rows) (zi cols) s) ^ "|" ^ strlist string_of_idx (dual_nodes (zi rows) (zi cols) s)
  | ["pdist"; rows; cols; a; b] -> wstr (distance (zi rows) (zi cols) (idx_of_string a) (idx_of_string b))
  | ["tdist"; rows; cols; a; b] -> wstr (tdistance (zi rows) (zi cols) (tidx_of_string a) (tidx_of_string b))
  | ["psyn"; rows; cols; e] -> string_of_bits (syndrome_of (planar_code (zi rows) (zi cols)).stabs (bits_of_string e))
  | ["tsyn"; rows; cols; e] -> string_of_bits (syndrome_of (toric_code (zi rows) (zi cols)).stabs (bits_of_string e))
  | ["pstabs"; rows; cols] -> string_of_rows (planar_code (zi rows) (zi cols)).stabs
  | ["tstabs"; rows; cols] -> string_of_rows (toric_code (zi rows) (zi cols)).stabs
  | _ -> "ERR BadRequest"
let () = main dispatch
