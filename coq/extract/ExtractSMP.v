Require Extraction.
Require Import ExtrOcamlBasic.
From QV Require Import Core.Bits Core.Pauli Core.Symp Core.Code Lattice.RotPlanar
  Decoders.SmwpmWalk Decoders.SmwpmPath.
Extraction "smp.ml" smwpm_path_sites smwpm_path_operator smwpm_assert_ok smwpm_node_ok smwpm_cluster_split
  smwpm_recovery rotplanar_code syndrome_of.
