Require Extraction.
Require Import ExtrOcamlBasic.
From QV Require Import Core.Bits Core.Pauli Core.Symp Core.Code Lattice.RotPlanar Lattice.RotToric
  Decoders.SmwpmWalk Decoders.SmwpmPath Decoders.SmwpmToric.
Extraction "smp.ml" smwpm_path_sites smwpm_path_operator smwpm_assert_ok smwpm_node_ok smwpm_cluster_split
  smwpm_recovery rotplanar_code syndrome_of
  smwpm_toric_cluster_split smwpm_toric_path_operator smwpm_toric_recovery rottoric_code.
