Require Extraction.
Require Import ExtrOcamlBasic.
From Coq Require Import List ZArith.
From QV Require Import Core.Bits Tensor.Sums Tensor.PlanarNetZ.
(* the planar coset network of Tensor/CosetNetwork.v (the model of PlanarMPSDecoder.TNC.create_tn) as data, and the
   numbers computed from it *)
Extraction "c10n.ml" planar_sitesZ planar_shapeZ planar_sweepZ planar_tsweepZ planar_splitZ planar_tsplitZ
  planar_valueZ planar_cosetZ.
