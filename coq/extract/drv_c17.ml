open C17
open Drv
(*#include zconv*)
(* rationals travel as [-]HEXNUM/HEXDEN (no 0x prefix); uniforms as HEXK meaning K / 2^53 *)
let hexval c = match c with
  | '0'..'9' -> Char.code c - 48 | 'a'..'f' -> Char.code c - 87 | 'A'..'F' -> Char.code c - 55
  | _ -> failwith "badhex"
let pos_of_bits_be (bits : bool list) : positive option =
  let rec strip = function false :: r -> strip r | l -> l in
  match strip bits with
  | [] -> None
  | _ :: rest -> Some (List.fold_left (fun acc b -> if b then XI acc else XO acc) XH rest)
let bits_of_hex s =
  let l = ref [] in
  String.iter (fun c -> let v = hexval c in
    l := ((v land 1) = 1) :: ((v land 2) = 2) :: ((v land 4) = 4) :: ((v land 8) = 8) :: !l) s;
  List.rev !l
let pos_of_hex s = match pos_of_bits_be (bits_of_hex s) with Some p -> p | None -> failwith "zeropos"
let z_of_hex s =
  let neg = String.length s > 0 && s.[0] = '-' in
  let body = if neg then String.sub s 1 (String.length s - 1) else s in
  match pos_of_bits_be (bits_of_hex body) with
  | None -> Z0
  | Some p -> if neg then Zneg p else Zpos p
let q_of_tok s = match String.split_on_char '/' s with
  | [a; b] -> { qnum = z_of_hex a; qden = pos_of_hex b }
  | [a] -> { qnum = z_of_hex a; qden = XH }
  | _ -> failwith "badq"
let rec bits_le_of_pos = function XH -> [true] | XO p -> false :: bits_le_of_pos p | XI p -> true :: bits_le_of_pos p
let hex_of_pos p =
  let le = bits_le_of_pos p in
  let rec nibbles = function
    | [] -> []
    | a :: b :: c :: d :: r -> ((if a then 1 else 0) + (if b then 2 else 0) + (if c then 4 else 0) + (if d then 8 else 0)) :: nibbles r
    | l -> nibbles (l @ [false]) in
  let ns = List.rev (nibbles le) in
  let rec strip = function 0 :: (_ :: _ as r) -> strip r | l -> l in
  String.concat "" (List.map (fun v -> String.make 1 "0123456789abcdef".[v]) (strip ns))
let tok_of_q q =
  (match q.qnum with Z0 -> "0" | Zpos p -> hex_of_pos p | Zneg p -> "-" ^ hex_of_pos p) ^ "/" ^ hex_of_pos q.qden
let two53 = pos_of_hex "20000000000000"
let uniform_of_tok s = { qnum = z_of_hex s; qden = two53 }
let dist_of s = List.map q_of_tok (split ',' s)
let uniforms_of s = List.map uniform_of_tok (split ',' s)
let letter = function PI -> "I" | PX -> "X" | PY -> "Y" | PZ -> "Z"
let dispatch = function
  | ["gen"; d; us] -> string_of_bits (generate (dist_of d) (uniforms_of us))
  | ["letters"; d; us] -> String.concat "" (List.map letter (gen_letters (dist_of d) (uniforms_of us)))
  | ["flips"; q; us] -> string_of_bits (flips (q_of_tok q) (uniforms_of us))
  | ["run"; t; n; m; d; q; us] ->
      let steps = run_stream (nat_of_int (int_of_string t)) (nat_of_int (int_of_string n)) (nat_of_int (int_of_string m))
                    (dist_of d) (q_of_tok q) (uniforms_of us) in
      String.concat ";" (List.map (fun (e, f) -> string_of_bits e ^ ":" ^ string_of_bits f) steps)
  | ["choice"; d; u] -> string_of_int (int_of_nat (choice (dist_of d) (uniform_of_tok u)))
  | ["cdf"; d] -> String.concat " " (List.map tok_of_q (cdf (dist_of d)))
  | _ -> "ERR BadRequest"
let () = main dispatch
