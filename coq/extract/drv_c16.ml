open C16
open Drv
(*#include zconv*)
(* rationals travel as [-]HEXNUM/HEXDEN (no 0x prefix); numerators may have thousands of bits *)
let hexval c = match c with
  | '0'..'9' -> Char.code c - 48 | 'a'..'f' -> Char.code c - 87 | 'A'..'F' -> Char.code c - 55
  | _ -> failwith "badhex"
(* positive from a big-endian bit list without leading zeros *)
let pos_of_bits_be (bits : bool list) : positive option =
  let rec strip = function false :: r -> strip r | l -> l in
  match strip bits with
  | [] -> None
  | _ :: rest -> Some (List.fold_left (fun acc b -> if b then XI acc else XO acc) XH rest)
let bits_of_hex s =
  let l = ref [] in
  String.iter (fun c -> let v = hexval c in
    l := ((v land 1) = 1) :: ((v land 2) = 2) :: ((v land 4) = 4) :: ((v land 8) = 8) :: !l) s;
  List.rev !l
let pos_of_hex s = match pos_of_bits_be (bits_of_hex s) with Some p -> p | None -> failwith "zeropos"
let z_of_hex s =
  let neg = String.length s > 0 && s.[0] = '-' in
  let body = if neg then String.sub s 1 (String.length s - 1) else s in
  match pos_of_bits_be (bits_of_hex body) with
  | None -> Z0
  | Some p -> if neg then Zneg p else Zpos p
let q_of_tok s = match String.split_on_char '/' s with
  | [a; b] -> { qnum = z_of_hex a; qden = pos_of_hex b }
  | [a] -> { qnum = z_of_hex a; qden = XH }
  | _ -> failwith "badq"
let rec bits_le_of_pos = function XH -> [true] | XO p -> false :: bits_le_of_pos p | XI p -> true :: bits_le_of_pos p
let hex_of_pos p =
  let le = bits_le_of_pos p in  (* least significant first *)
  let rec nibbles = function
    | [] -> []
    | a :: b :: c :: d :: r -> ((if a then 1 else 0) + (if b then 2 else 0) + (if c then 4 else 0) + (if d then 8 else 0)) :: nibbles r
    | l -> nibbles (l @ [false]) in
  let ns = List.rev (nibbles le) in
  let rec strip = function 0 :: (_ :: _ as r) -> strip r | l -> l in
  String.concat "" (List.map (fun v -> String.make 1 "0123456789abcdef".[v]) (strip ns))
let tok_of_q q =
  (match q.qnum with Z0 -> "0" | Zpos p -> hex_of_pos p | Zneg p -> "-" ^ hex_of_pos p) ^ "/" ^ hex_of_pos q.qden
let str_dist d = let d = dist_red d in String.concat " " (List.map tok_of_q [d.dI; d.dX; d.dY; d.dZ])
let str_vec v = let ((x, y), z) = vec_red v in String.concat " " (List.map tok_of_q [x; y; z])
let axis_of = function "X" -> AX | "Y" -> AY | "Z" -> AZ | _ -> failwith "badaxis"
let pynum_of = function
  | "nan" -> PNaN | "inf" -> PInf false | "-inf" -> PInf true | "notnum" -> PNotNum
  | s -> PQ (q_of_tok s)
let axis_arg_of s =
  if s = "other" then AxOther
  else if String.length s >= 2 && String.sub s 0 2 = "s:" then
    AxStr (List.map (fun t -> nat_of_int (int_of_string t)) (split ',' (String.sub s 2 (String.length s - 2))))
  else failwith "badaxisarg"
let lim_arg_of s = if s = "notsized" then LimNotSized else LimSeq (List.map pynum_of (split ',' s))
let str_ctor = function Accept -> "ok" | RaiseValue -> "ValueError" | RaiseType -> "TypeError"
let dispatch = function
  | ["depol"; p] -> str_dist (depolarizing (q_of_tok p))
  | ["bitflip"; p] -> str_dist (bit_flip (q_of_tok p))
  | ["phaseflip"; p] -> str_dist (phase_flip (q_of_tok p))
  | ["bitphase"; p] -> str_dist (bit_phase_flip (q_of_tok p))
  | ["biased"; b; a; p] -> str_dist (biased (q_of_tok b) (axis_of a) (q_of_tok p))
  | ["yx"; h; p; s] -> str_dist (biased_yx (q_of_tok h) (q_of_tok p) (q_of_tok s))
  | ["yxdisc"; h; p] -> tok_of_q (qred (yx_disc (q_of_tok h) (q_of_tok p)))
  | ["slice"; l1; l2; l3; pos; p] ->
      (match slice ((q_of_tok l1, q_of_tok l2), q_of_tok l3) (q_of_tok pos) (q_of_tok p) with
       | Some d -> str_dist d | None -> "ERR QecsimError")
  | ["sliceattrs"; l1; l2; l3; pos] ->
      let l = normalize ((q_of_tok l1, q_of_tok l2), q_of_tok l3) in
      (match neg_lim l, ratio l (q_of_tok pos) with
       | Some n, Some r -> str_vec l ^ " " ^ str_vec n ^ " " ^ str_vec r
       | _, _ -> "ERR QecsimError")
  | ["ctor_biased"; b; a] -> str_ctor (biased_ctor (pynum_of b) (axis_arg_of a))
  | ["ctor_yx"; b] -> str_ctor (yx_ctor (pynum_of b))
  | ["ctor_slice"; l; pos] -> str_ctor (slice_ctor (lim_arg_of l) (pynum_of pos))
  | ["ctor_slice_unsigned"; l; pos] -> str_ctor (slice_ctor_unsigned (lim_arg_of l) (pynum_of pos))
  | _ -> "ERR BadRequest"
let () = main dispatch
