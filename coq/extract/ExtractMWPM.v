Require Extraction.
Require Import ExtrOcamlBasic.
From QV Require Import Core.Bits Core.Pauli Core.Symp Core.Code Lattice.Planar Lattice.Toric Decoders.PlanarMwpm Decoders.ToricMwpm.
Extraction "mwpm.ml" primal_nodes dual_nodes mwpm_recovery lattice_defects toric_mwpm_recovery planar_code toric_code syndrome_of.
