(* engine `latpt`: planar and toric lattice models.  (File name in upper case because
   build_engines.sh derives it with `tr a-z A-Z`.) *)
Require Extraction.
Require Import ExtrOcamlBasic.
From QV Require Import Core.Bits Core.Pauli Core.Symp Core.Code Generated.LatticeArith Lattice.Planar Lattice.Toric.
Extraction "latpt.ml"
  p_to_bsf p_of_bsf
  planar_n_k_d planar_code plaquette_indices new_pauli plaquette site_api operator path distance
  planar_translation planar_virtual_plaquette_index syndrome_to_plaquette_indices virtual_indices planar_ctor
  toric_n_k_d toric_code tindices tnew_pauli tplaquette tsite toperator tpath tdistance
  toric_translation tsyndrome_to_plaquette_indices toric_ctor.
