Require Extraction.
Require Import ExtrOcamlBasic.
From Coq Require Import QArith Qreduction.
From QV Require Import App.RunLoop.
Definition stats (n T : Z) (a : acc) : Q * Q * Q * Z :=
  (Qred (pvar (a_ws a)), Qred (failure_rate a), Qred (physical_rate n T a), zsum (a_ws a)).
Extraction "c04.ml" run_loop stats mkRun.
