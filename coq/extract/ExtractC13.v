Require Extraction.
Require Import ExtrOcamlBasic.
From Coq Require Import QArith.
From QV Require Import Decoders.Matching Decoders.MatchingHist.
Extraction "c13.ml" build add_edge edge nodes all_pms weight is_perfect is_min_pm min_pm_weight negate Qle_bool Qred step get.
