Require Extraction.
Require Import ExtrOcamlBasic.
From Coq Require Import QArith.
From QV Require Import Decoders.Matching Decoders.MatchingHist Decoders.MatchingMin Decoders.MatchingMemo.
Extraction "c13.ml" build add_edge edge nodes all_pms weight is_perfect is_min_pm min_pm_weight negate Qle_bool Qred step get is_min_pm_fast min_pm_weight_fast npms_fast is_min_pm_memo min_pm_weight_memo npms_memo is_min_pm_big scaleq den_scale Qmult Qinv Qopp.
