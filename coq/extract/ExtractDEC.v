Require Extraction.
Require Import ExtrOcamlBasic.
From QV Require Import Core.Bits Core.Pauli Core.Symp Core.Span Decoders.Naive Decoders.Checker Decoders.TParity.
Extraction "dec.ml" recovery_ok recovery_ok_ftp in_span in_span_with not_in_span_cert basis_of rank naive_decode naive_blocks tparity_decide tparity
  syndrome_of bsf_wt xsum five_stabs steane_stabs.
