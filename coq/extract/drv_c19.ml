open C19
open Drv
(*#include zconv*)
let codes_of_string s = if s = "-" then [] else List.map (fun t -> nat_of_int (int_of_string t)) (String.split_on_char ',' s)
let string_of_codes l = if l = [] then "-" else String.concat "," (List.map (fun c -> string_of_int (int_of_nat c)) l)
let optzs s = if s = "_" then None else Some (zs_of_string s)
let str_optzs = function None -> "_" | Some l -> string_of_zs l
let string_of_q q = Printf.sprintf "%d/%d" (int_of_z q.qnum) (int_of_pos q.qden)
(* record (same format as drv_c05.ml): k1,..,k7 (T and q ids may be _) : n : Tval|_ : run : fail : succ : ewt : wall : lc|_|A : cv|_|A *)
let raw_of_string s =
  match String.split_on_char ':' s with
  | [ks; n; tv; run; fail; succ; ewt; wall; lc; cv] ->
      let k = Array.of_list (String.split_on_char ',' ks) in
      let id i = nat_of_int (int_of_string k.(i)) in
      let oid i = if k.(i) = "_" then None else Some (id i) in
      let zi x = z_of_int (int_of_string x) in
      { w_code = id 0; w_nkd = id 1; w_em = id 2; w_dec = id 3; w_p = id 4; w_T = oid 5; w_q = oid 6;
        w_n = zi n; w_Tval = (if tv = "_" then None else Some (zi tv));
        w_pay = { p_run = zi run; p_fail = zi fail; p_succ = zi succ; p_ewt = zi ewt; p_wall = zi wall;
                  p_lc = (if lc = "A" then None else optzs lc); p_cv = (if cv = "A" then None else optzs cv) };
        w_lc_present = (lc <> "A"); w_cv_present = (cv <> "A") }
  | _ -> failwith "badraw"
let string_of_row r =
  let p = r.row_pay in
  let (fr, pr) = row_rates r in
  Printf.sprintf "%s:%d:%d:%d:%d:%d:%s:%s:%s:%s"
    (String.concat "," (List.map (fun x -> string_of_int (int_of_nat x)) r.row_key))
    (int_of_z p.p_run) (int_of_z p.p_fail) (int_of_z p.p_succ) (int_of_z p.p_ewt) (int_of_z p.p_wall)
    (str_optzs p.p_lc) (str_optzs p.p_cv) (string_of_q fr) (string_of_q pr)
let dispatch = function
  | ["parse"; s] ->
      (match parse_spec (codes_of_string s) with
       | None -> "nomatch"
       | Some (name, a) -> "name=" ^ string_of_codes name ^ " args=" ^ (match a with None -> "_" | Some x -> string_of_codes x))
  | ["write"; exists_; dir_ok; out] ->
      (* one-file universe: path 0 ; content = 1 (new data), old content = 0 *)
      let f = fun _ -> if exists_ = "1" then Some 0 else None in
      let o = write_data (fun a b -> a = b) (fun _ -> dir_ok = "1") f (if out = "-" then None else Some 0) 1 in
      Printf.sprintf "file=%s stdout=%d errlog=%d exit=%d"
        (match o.o_fs 0 with None -> "none" | Some 0 -> "old" | Some _ -> "new")
        (List.length o.o_stdout) (List.length o.o_errlog) (int_of_nat o.o_exit)
  | ["mergecmd"; exists_; dir_ok; out; dt; dq; files] ->
      (* the merge command over a small file system: path 0 = the output file (old content JBad when it exists),
         paths 1..n = the DATA_FILEs: "!" unparsable, "?" missing, "-" empty list, else ';'-separated records *)
      let fl = Array.of_list (String.split_on_char '|' files) in
      let file_of s = if s = "?" then None else if s = "!" then Some JBad
                      else Some (JData (if s = "-" then [] else List.map raw_of_string (String.split_on_char ';' s))) in
      let f = fun p -> let i = int_of_nat p in
                if i = 0 then (if exists_ = "1" then Some JBad else None)
                else if i <= Array.length fl then file_of fl.(i - 1) else None in
      let ps = List.init (Array.length fl) (fun i -> nat_of_int (i + 1)) in
      let o = merge_cmd_records (nat_of_int (int_of_string dt)) (nat_of_int (int_of_string dq)) (fun _ -> dir_ok = "1")
                f ps (if out = "-" then None else Some O) in
      let rows_str = function
        | JRows rows -> if rows = [] then "-" else String.concat ";" (List.map string_of_row rows)
        | _ -> "?" in
      let fstate = match o.o_fs O with None -> "none" | Some JBad -> "old" | Some _ -> "new" in
      let data = (match o.o_stdout, o.o_errlog, o.o_fs O with
                  | d :: _, _, _ -> rows_str d
                  | _, d :: _, _ -> rows_str d
                  | _, _, Some (JRows r) -> rows_str (JRows r)
                  | _ -> "_") in
      Printf.sprintf "exit=%d file=%s stdout=%d errlog=%d rows=%s" (int_of_nat o.o_exit) fstate
        (List.length o.o_stdout) (List.length o.o_errlog) data
  | _ -> "ERR BadRequest"
let () = main dispatch
