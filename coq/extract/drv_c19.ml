open C19
open Drv
(*#include natconv*)
let codes_of_string s = if s = "-" then [] else List.map (fun t -> nat_of_int (int_of_string t)) (String.split_on_char ',' s)
let string_of_codes l = if l = [] then "-" else String.concat "," (List.map (fun c -> string_of_int (int_of_nat c)) l)
let dispatch = function
  | ["parse"; s] ->
      (match parse_spec (codes_of_string s) with
       | None -> "nomatch"
       | Some (name, a) -> "name=" ^ string_of_codes name ^ " args=" ^ (match a with None -> "_" | Some x -> string_of_codes x))
  | ["write"; exists_; dir_ok; out] ->
      (* one-file universe: path 0 ; content = 1 (new data), old content = 0 *)
      let f = fun _ -> if exists_ = "1" then Some 0 else None in
      let o = write_data (fun a b -> a = b) (fun _ -> dir_ok = "1") f (if out = "-" then None else Some 0) 1 in
      Printf.sprintf "file=%s stdout=%d errlog=%d exit=%d"
        (match o.o_fs 0 with None -> "none" | Some 0 -> "old" | Some _ -> "new")
        (List.length o.o_stdout) (List.length o.o_errlog) (int_of_nat o.o_exit)
  | _ -> "ERR BadRequest"
let () = main dispatch
