Require Extraction.
Require Import ExtrOcamlBasic.
From QV Require Import Cli.Ctor Cli.WriteData.
Extraction "c19.ml" parse_spec write_data.
