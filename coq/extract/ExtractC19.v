Require Extraction.
Require Import ExtrOcamlBasic.
From Coq Require Import QArith Qreduction.
From QV Require Import Cli.Ctor Cli.WriteData App.Merge Cli.MergeCmd.
Definition row_rates (r : row) : Q * Q := (Qred (row_fr r), Qred (row_pr r)).
Extraction "c19.ml" parse_spec write_data merge_cmd_records row_rates mkRaw mkPay JBad.
