open Smp
open Drv
(*#include zconv*)
let zi s = z_of_int (int_of_string s)
let iz = int_of_z
(* cluster index "t:x:y"; indices of a cluster separated by ','; clusters by ';' ("-" = no clusters) *)
let tidx_of_string s = match String.split_on_char ':' s with
  | [t; x; y] -> ((zi t, zi x), zi y) | _ -> failwith "badtidx"
let cluster_of_string s = List.map tidx_of_string (split ',' s)
let dispatch = function
  (* RotatedPlanarSMWPMDecoder._path_operator(code, (ax, ay), (bx, by)) as bsf *)
  | ["path"; rows; cols; ax; ay; bx; by] ->
      let r = zi rows and c = zi cols and a = (zi ax, zi ay) and b = (zi bx, zi by) in
      if not (smwpm_assert_ok r c a && smwpm_assert_ok r c b) then "ERR AssertionError"
      else (match smwpm_path_operator r c a b with Some o -> string_of_bits o | None -> "ERR ValueError")
  (* path_indices of _path_operator (before RotatedPlanarPauli.site drops anything) *)
  | ["sites"; ax; ay; bx; by] ->
      let l = smwpm_path_sites (zi ax, zi ay) (zi bx, zi by) in
      String.concat ";" (List.map (fun (x, y) -> string_of_int (iz x) ^ ":" ^ string_of_int (iz y)) l)
  (* RotatedPlanarSMWPMDecoder._recovery(code, clusters) as bsf *)
  | ["recovery"; rows; cols; cl] ->
      (match smwpm_recovery (zi rows) (zi cols) (List.map cluster_of_string (split ';' cl)) with
       | Some r -> string_of_bits r | None -> "ERR Exception")
  (* the operator of RotatedToricSMWPMDecoder._recovery_tparities(code, time_steps, clusters) as bsf *)
  | ["trecovery"; rows; cols; cl] ->
      (match smwpm_toric_recovery (zi rows) (zi cols) (List.map cluster_of_string (split ';' cl)) with
       | Some r -> string_of_bits r | None -> "ERR Exception")
  (* RotatedToricCode.new_pauli().path((ax, ay), (bx, by)).to_bsf() *)
  | ["tpath"; rows; cols; ax; ay; bx; by] ->
      (match smwpm_toric_path_operator (zi rows) (zi cols) (zi ax, zi ay) (zi bx, zi by) with
       | Some o -> string_of_bits o | None -> "ERR IndexError")
  | ["tstabs"; rows; cols] -> string_of_rows (rottoric_code (zi rows) (zi cols)).stabs
  | ["rstabs"; rows; cols] -> string_of_rows (rotplanar_code (zi rows) (zi cols)).stabs
  | ["rsyn"; rows; cols; e] -> string_of_bits (syndrome_of (rotplanar_code (zi rows) (zi cols)).stabs (bits_of_string e))
  | _ -> "ERR BadRequest"
let () = main dispatch
