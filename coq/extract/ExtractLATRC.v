Require Extraction.
Require Import ExtrOcamlBasic.
From QV Require Import Core.Bits Core.Pauli Core.Symp Core.Code Generated.LatticeArith
  Lattice.RotPlanar Lattice.RotToric Lattice.Color.
Extraction "latrc.ml"
  rc_identity rc_to_bsf rc_of_bsf
  rotplanar_code rotplanar_n_k_d rp_identity rp_site rp_operator rp_plaquette rp_logical_x rp_logical_z
  rp_plaquette_indices rp_site_indices rp_syndrome_to_plaquette_indices rp_ctor
  rottoric_code rottoric_n_k_d rt_identity rt_site rt_operator rt_plaquette
  rt_logical_x1 rt_logical_x2 rt_logical_z1 rt_logical_z2 rt_plaquette_indices
  rt_syndrome_to_plaquette_indices rt_translation rt_path rt_path_indices rt_ctor
  color_code color_n_k_d c6_identity c6_site c6_operator c6_plaquette c6_logical c6_plaquette_indices
  c6_site_indices c6_syndrome_to_plaquette_indices c6_flatten c6_flatten_q color_virtual_plaquette_index c6_ctor.
