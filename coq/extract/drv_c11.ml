open C11
open Drv
(*#include zconv*)
(* line protocol of the tensor-network engine.
   site   : "_" (None) or "a.b.c.d:v,v,..." (dims n.e.s.w, entries in C order, decimal)
   column : sites joined by '|';   network : columns joined by '/' ("-" = no columns)
   replies print integers as signed hex.  The ring carrier of the generic model extracts to
   Obj.t; for the Z instance it is C11.z, hence the two Obj.magic casts on [cres] values. *)
let hex_of_pos p =
  let rec bits acc = function XH -> 1 :: acc | XO p -> bits (0 :: acc) p | XI p -> bits (1 :: acc) p in
  (* bits returns MSB first *)
  let b = Array.of_list (List.rev (bits [] p)) in  (* LSB first *)
  let n = Array.length b in
  let nd = (n + 3) / 4 in
  let buf = Bytes.create nd in
  for d = 0 to nd - 1 do
    let v = ref 0 in
    for k = 3 downto 0 do
      let i = 4 * d + k in
      v := 2 * !v + (if i < n then b.(i) else 0)
    done;
    Bytes.set buf (nd - 1 - d) "0123456789abcdef".[!v]
  done;
  Bytes.to_string buf
let hex_of_z = function Z0 -> "0x0" | Zpos p -> "0x" ^ hex_of_pos p | Zneg p -> "-0x" ^ hex_of_pos p
let rec chunks k l =
  if l = [] then [] else
  let rec take n l acc = if n = 0 then (List.rev acc, l) else
      match l with [] -> failwith "short" | x :: r -> take (n - 1) r (x :: acc) in
  let (h, t) = take k l [] in h :: chunks k t
let site_of_string s =
  if s = "_" then None else
  match String.split_on_char ':' s with
  | [dims; vals] ->
      (match List.map int_of_string (String.split_on_char '.' dims) with
       | [a; b; c; d] ->
           let vs = List.map (fun t -> z_of_int (int_of_string t)) (String.split_on_char ',' vals) in
           if List.length vs <> a * b * c * d then failwith "entries";
           let lw = chunks d vs in              (* list of w-rows, a*b*c of them *)
           let ls = chunks c lw in              (* a*b lists of c w-rows *)
           let le = chunks b ls in              (* a lists of b ... *)
           Some (mk_tensorZ (nat_of_int a) (nat_of_int b) (nat_of_int c) (nat_of_int d) le)
       | _ -> failwith "dims")
  | _ -> failwith "site"
let col_of_string s = List.map site_of_string (String.split_on_char '|' s)
let net_of_string s = if s = "-" then [] else List.map col_of_string (String.split_on_char '/' s)
let string_of_tensor t =
  let (((a, b), c), d) = dimsZ t in
  Printf.sprintf "%d.%d.%d.%d:%s" (int_of_nat a) (int_of_nat b) (int_of_nat c) (int_of_nat d)
    (String.concat "," (List.map hex_of_z (entriesZ t)))
let string_of_site = function None -> "_" | Some t -> string_of_tensor t
let string_of_col c = String.concat "|" (List.map string_of_site c)
let string_of_net n = if n = [] then "-" else String.concat "/" (List.map string_of_col n)
let optz s = if s = "_" then None else Some (z_of_int (int_of_string s))
let optq s = if s = "_" then None else if s = "0" then Some { qnum = Z0; qden = XH } else Some { qnum = Zpos XH; qden = XH }
let maskcol s = if s = "_" then None else Some (bits_of_string s)
let masknet s = if s = "_" then None else Some (List.map bits_of_string (String.split_on_char '/' s))
let string_of_err = function ValueError -> "ERR ValueError" | TypeError -> "ERR TypeError"
  | AssertionError -> "ERR AssertionError" | Unmodelled -> "UNMODELLED"
let res f = function Ok x -> f x | Err e -> string_of_err e
let dispatch = function
  | ["contract"; net; chi; tol; start; stop; step; mask] ->
      res (function
          | Scalar x -> "S " ^ hex_of_z (Obj.magic x)
          | Partial (None, m) -> "P " ^ hex_of_z (Obj.magic m) ^ " None"
          | Partial (Some c, m) -> "P " ^ hex_of_z (Obj.magic m) ^ " " ^ string_of_col c)
        (contractZ (net_of_string net) (optz chi) (optq tol) (optz start) (optz stop) (optz step) (masknet mask))
  | ["split"; net; chi; tol; mask; c] ->
      res hex_of_z (split_contractZ (net_of_string net) (optz chi) (optq tol) (masknet mask) (z_of_int (int_of_string c)))
  | ["bonds"; net; start; stop; step] ->
      let l = contract_bondsZ (net_of_string net) (optz start) (optz stop) (optz step) in
      if l = [] then "-" else String.concat "," (List.map (fun n -> string_of_int (int_of_nat n)) l)
  | ["wf"; r; net] -> if netwfbZ (nat_of_int (int_of_string r)) (net_of_string net) then "1" else "0"
  | ["value"; r; net] -> hex_of_z (valueZ (nat_of_int (int_of_string r)) (net_of_string net))
  | ["inner"; a; b] -> res hex_of_z (inner_productZ (col_of_string a) (col_of_string b))
  | ["pairwise"; a; b] -> res string_of_col (contract_pairwiseZ (col_of_string a) (col_of_string b))
  | ["ladder"; a] -> res string_of_tensor (contract_ladderZ (col_of_string a))
  | ["scalar"; a] -> (match site_of_string a with Some t -> res hex_of_z (as_scalarZ t) | None -> "ERR BadRequest")
  | ["transpose"; r; net] -> string_of_net (transpose_netZ (nat_of_int (int_of_string r)) (net_of_string net))
  | ["truncate"; c; chi; tol; mask] ->
      res (fun (c', m) -> "NOOP " ^ hex_of_z m ^ " " ^ string_of_col c') (truncateZ (optz chi) (optq tol) (maskcol mask) (col_of_string c))
  | ["bond"; c] -> string_of_int (int_of_nat (bond_dimensionZ (if c = "-" then [] else col_of_string c)))
  | ["startstop"; b] ->
      (match start_stop_bools (bits_of_string b) with
       | None -> "ERR ValueError" | Some (a, b) -> Printf.sprintf "%d %d" (int_of_nat a) (int_of_nat b))
  | ["slice"; start; stop; step; n] ->
      (match slice_indices (optz start) (optz stop) (optz step) (z_of_int (int_of_string n)) with
       | None -> "ERR ValueError"
       | Some ((a, b), st) -> Printf.sprintf "%d %d %d %s" (int_of_z a) (int_of_z b) (int_of_z st) (string_of_zs (py_range a b st)))
  | _ -> "ERR BadRequest"
let () = main dispatch
