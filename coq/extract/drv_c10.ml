open C10
open Drv
(*#include zconv*)
(* integers travel as signed hex; positives are built four bits at a time *)
let pos_of_hex s =
  (* s: hex digits, no prefix, non-zero *)
  let bits = Buffer.create (4 * String.length s) in
  String.iter (fun ch ->
      let v = int_of_string ("0x" ^ String.make 1 ch) in
      List.iter (fun k -> Buffer.add_char bits (if (v lsr k) land 1 = 1 then '1' else '0')) [3; 2; 1; 0]) s;
  let b = Buffer.contents bits in
  let n = String.length b in
  let i = ref 0 in
  while !i < n && b.[!i] = '0' do incr i done;
  if !i >= n then failwith "zero";
  let p = ref XH in
  for j = !i + 1 to n - 1 do p := (if b.[j] = '1' then XI !p else XO !p) done;
  !p
let z_of_hex s =
  let neg = String.length s > 0 && s.[0] = '-' in
  let s = if neg then String.sub s 1 (String.length s - 1) else s in
  let s = if String.length s > 2 && s.[0] = '0' && (s.[1] = 'x' || s.[1] = 'X') then String.sub s 2 (String.length s - 2) else s in
  if String.for_all (fun c -> c = '0') s then Z0 else if neg then Zneg (pos_of_hex s) else Zpos (pos_of_hex s)
let hex_of_pos p =
  let rec bits acc = function XH -> 1 :: acc | XO p -> bits (0 :: acc) p | XI p -> bits (1 :: acc) p in
  let b = Array.of_list (List.rev (bits [] p)) in
  let n = Array.length b in
  let nd = (n + 3) / 4 in
  let buf = Bytes.create nd in
  for d = 0 to nd - 1 do
    let v = ref 0 in
    for k = 3 downto 0 do
      let i = 4 * d + k in
      v := 2 * !v + (if i < n then b.(i) else 0)
    done;
    Bytes.set buf (nd - 1 - d) "0123456789abcdef".[!v]
  done;
  Bytes.to_string buf
let hex_of_z = function Z0 -> "0x0" | Zpos p -> "0x" ^ hex_of_pos p | Zneg p -> "-0x" ^ hex_of_pos p
let b s = s = "1"
let dispatch = function
  | ["coset"; n; gens; f; pi; px; py; pz] ->
      hex_of_z (coset_probZ (z_of_hex pi) (z_of_hex px) (z_of_hex py) (z_of_hex pz) (nat_of_int (int_of_string n))
                  (rows_of_string gens) (bits_of_string f))
  | ["prob"; n; v; pi; px; py; pz] ->
      hex_of_z (probZ (z_of_hex pi) (z_of_hex px) (z_of_hex py) (z_of_hex pz) (nat_of_int (int_of_string n)) (bits_of_string v))
  | ["hnode"; fx; fz; n; e; s; w; pi; px; py; pz] ->
      hex_of_z (h_nodeZ (z_of_hex pi) (z_of_hex px) (z_of_hex py) (z_of_hex pz) (b fx) (b fz) (b n) (b e) (b s) (b w))
  | ["vnode"; fx; fz; n; e; s; w; pi; px; py; pz] ->
      hex_of_z (v_nodeZ (z_of_hex pi) (z_of_hex px) (z_of_hex py) (z_of_hex pz) (b fx) (b fz) (b n) (b e) (b s) (b w))
  | ["mlchoice"; vs] -> string_of_int (int_of_nat (ml_choice (List.map z_of_hex (String.split_on_char ',' vs))))
  | ["delta"; dims] ->
      (match List.map int_of_string (String.split_on_char '.' dims) with
       | [a; b; c; d] ->
           let out = ref [] in
           for n = 0 to a - 1 do for e = 0 to b - 1 do for s = 0 to c - 1 do for w = 0 to d - 1 do
             out := int_of_z (delta_valZ (List.map nat_of_int [a; b; c; d]) (List.map nat_of_int [n; e; s; w])) :: !out
           done done done done;
           String.concat "," (List.rev_map string_of_int !out)
       | _ -> "ERR BadRequest")
  | ["spancount"; len; gens] -> string_of_int (int_of_nat (span_count (nat_of_int (int_of_string len)) (rows_of_string gens)))
  | _ -> "ERR BadRequest"
let () = main dispatch
